//! shared helpers of the library-level monitors
pub struct Rng(pub u64);
impl Rng {
   pub fn new(seed: u64) -> Self { Rng(seed.wrapping_mul(0x9E3779B97F4A7C15) | 1) }
   pub fn next(&mut self) -> u64 {
      self.0 ^= self.0 << 13;
      self.0 ^= self.0 >> 7;
      self.0 ^= self.0 << 17;
      self.0
   }
   pub fn below(&mut self, n: usize) -> usize { (self.next() % (n as u64)) as usize }
   pub fn chance(&mut self, num: u64, den: u64) -> bool { self.next() % den < num }
}

pub fn arg(name: &str, default: u64) -> u64 {
   let args: Vec<String> = std::env::args().collect();
   for a in &args {
      if let Some(v) = a.strip_prefix(&format!("--{}=", name)) {
         return v.parse().unwrap();
      }
   }
   default
}

pub fn json_escape(s: &str) -> String {
   let mut o = String::new();
   for c in s.chars() {
      match c {
         '"' => o.push_str("\\\""),
         '\\' => o.push_str("\\\\"),
         '\n' => o.push_str("\\n"),
         c if (c as u32) < 0x20 => o.push(' '),
         c => o.push(c),
      }
   }
   o
}

pub fn quiet_panics() { std::panic::set_hook(Box::new(|_| {})); }

pub fn panic_message(e: Box<dyn std::any::Any + Send>) -> String {
   if let Some(s) = e.downcast_ref::<&str>() {
      s.to_string()
   } else if let Some(s) = e.downcast_ref::<String>() {
      s.clone()
   } else {
      "<panic>".into()
   }
}
