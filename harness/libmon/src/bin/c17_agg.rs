//! C17: library aggregators vs their mathematical definition, totality (no panic), on all small multisets and random ones.
use std::panic::{catch_unwind, AssertUnwindSafe};

use ascent::aggregators::*;
use libmon::*;

/// wraps data in iterators with different size_hint behaviours
#[derive(Clone)]
struct Hinted<I: Iterator> {
   inner: I,
   mode: u8,
   remaining: usize,
}
impl<I: Iterator> Iterator for Hinted<I> {
   type Item = I::Item;
   fn next(&mut self) -> Option<I::Item> {
      let r = self.inner.next();
      if r.is_some() {
         self.remaining -= 1;
      }
      r
   }
   fn size_hint(&self) -> (usize, Option<usize>) {
      match self.mode {
         0 => (self.remaining, Some(self.remaining)), // exact
         1 => (0, None),                              // unknown
         2 => (self.remaining / 2, Some(self.remaining * 2 + 1)), // honest but inexact
         _ => (0, Some(self.remaining + 3)),          // low lower bound, loose upper bound
      }
   }
}

struct Stats {
   calls: u64,
   nonempty_inputs: u64,
   viol: Vec<(String, String)>,
}
impl Stats {
   fn fail(&mut self, what: &str, w: String) {
      if !self.viol.iter().any(|(l, _)| l == what) {
         self.viol.push((what.to_string(), w));
      }
   }
}

fn check_multiset(data: &[i32], ps: &[f64], st: &mut Stats) {
   if !data.is_empty() {
      st.nonempty_inputs += 1;
   }
   let mut sorted = data.to_vec();
   sorted.sort();
   macro_rules! guarded {
      ($name:expr, $body:expr) => {{
         st.calls += 1;
         match catch_unwind(AssertUnwindSafe(|| $body)) {
            Ok(v) => Some(v),
            Err(e) => {
               st.fail(&format!("{}_panics", $name), format!("input={:?}: {}", data, panic_message(e)));
               None
            },
         }
      }};
   }
   if let Some(v) = guarded!("min", min(data.iter().map(|x| (x,))).collect::<Vec<i32>>()) {
      let want: Vec<i32> = sorted.first().cloned().into_iter().collect();
      if v != want {
         st.fail("min", format!("input={:?} got={:?} want={:?}", data, v, want));
      }
   }
   if let Some(v) = guarded!("max", max(data.iter().map(|x| (x,))).collect::<Vec<i32>>()) {
      let want: Vec<i32> = sorted.last().cloned().into_iter().collect();
      if v != want {
         st.fail("max", format!("input={:?} got={:?} want={:?}", data, v, want));
      }
   }
   if let Some(v) = guarded!("sum", sum(data.iter().map(|x| (x,))).collect::<Vec<i32>>()) {
      let mut s = 0i32;
      for x in data {
         s += *x;
      }
      if v != vec![s] {
         st.fail("sum", format!("input={:?} got={:?} want=[{}]", data, v, s));
      }
   }
   for mode in 0..4u8 {
      if let Some(v) = guarded!("count", count(Hinted { inner: data.iter().map(|_| ()), mode, remaining: data.len() }).collect::<Vec<usize>>()) {
         if v != vec![data.len()] {
            st.fail("count", format!("input len={} size_hint mode={} got={:?}", data.len(), mode, v));
         }
      }
   }
   if let Some(v) = guarded!("mean", mean(data.iter().map(|x| (x,))).collect::<Vec<f64>>()) {
      if data.is_empty() {
         if !v.is_empty() {
            st.fail("mean", format!("empty input yields {:?}", v));
         }
      } else {
         let s: i64 = data.iter().map(|x| *x as i64).sum();
         let want = s as f64 / data.len() as f64;
         if v.len() != 1 || (v[0] - want).abs() > 1e-9 * want.abs().max(1.0) {
            st.fail("mean", format!("input={:?} got={:?} want={}", data, v, want));
         }
      }
   }
   if let Some(v) = guarded!("not", not(data.iter().map(|_| ())).collect::<Vec<()>>()) {
      if (v.len() == 1) != data.is_empty() || v.len() > 1 {
         st.fail("not", format!("input len={} yields {} units", data.len(), v.len()));
      }
   }
   for &p in ps {
      if let Some(v) = guarded!("percentile", percentile(p)(data.iter().map(|x| (x,))).collect::<Vec<i32>>()) {
         if data.is_empty() {
            if !v.is_empty() {
               st.fail("percentile", format!("empty input p={} yields {:?}", p, v));
            }
         } else {
            // an element of the input whose rank is floor(len * p / 100), clamped to the last element
            let idx = ((data.len() as f64 * p / 100.0) as usize).min(data.len() - 1);
            if v.len() != 1 || v[0] != sorted[idx] {
               st.fail("percentile", format!("input={:?} p={} got={:?} want={}", data, p, v, sorted[idx]));
            }
         }
      }
   }
}

fn main() {
   quiet_panics();
   let seed = arg("seed", 1);
   let nrandom = arg("random", 2000);
   let maxlen = arg("exhaustive_len", 5) as usize;
   let mut rng = Rng::new(seed);
   let mut st = Stats { calls: 0, nonempty_inputs: 0, viol: vec![] };
   let ps = [0.0, 1.0, 25.0, 50.0, 75.0, 99.0, 99.999, 100.0];
   // all sequences (hence all multisets, in all orders) of length 0..=maxlen over {-2..2}
   let vals = [-2, -1, 0, 1, 2];
   let mut multisets = 0u64;
   for len in 0..=maxlen {
      let total = 5usize.pow(len as u32);
      for code in 0..total {
         let mut c = code;
         let mut data = Vec::with_capacity(len);
         for _ in 0..len {
            data.push(vals[c % 5]);
            c /= 5;
         }
         check_multiset(&data, &ps, &mut st);
         multisets += 1;
      }
   }
   let exhaustive = multisets;
   for _ in 0..nrandom {
      let cap = if rng.chance(1, 10) { 1000 } else { 40 };
      let len = rng.below(cap);
      let data: Vec<i32> = (0..len).map(|_| (rng.below(2001) as i32) - 1000).collect();
      let mut rps: Vec<f64> = ps.to_vec();
      for _ in 0..4 {
         rps.push((rng.below(100001) as f64) / 1000.0);
      }
      check_multiset(&data, &rps, &mut st);
      multisets += 1;
   }
   // rank sweep: distinct values, every size 0..=maxn, every p that is a multiple of 0.25 in [0, 100] (exactly representable,
   // so the prescribed rank floor(n * p / 100) is computed exactly with integers)
   let maxn = arg("rank_sweep_n", 200) as usize;
   let mut sweep = 0u64;
   for n in 0..=maxn {
      let mut data: Vec<i32> = (0..n as i32).map(|x| x * 10).collect();
      // a fixed shuffle
      for i in (1..data.len()).rev() {
         let j = rng.below(i + 1);
         data.swap(i, j);
      }
      for q in 0..=400u64 {
         let p = q as f64 / 4.0;
         st.calls += 1;
         sweep += 1;
         match catch_unwind(AssertUnwindSafe(|| percentile(p)(data.iter().map(|x| (x,))).collect::<Vec<i32>>())) {
            Err(e) => st.fail("percentile_panics", format!("n={} p={}: {}", n, p, panic_message(e))),
            Ok(v) => {
               if n == 0 {
                  if !v.is_empty() {
                     st.fail("percentile", format!("empty input p={} yields {:?}", p, v));
                  }
               } else {
                  let idx = ((n as u64 * q) / 400).min(n as u64 - 1) as i32;
                  if v != vec![idx * 10] {
                     st.fail("percentile_rank", format!("n={} (values 0,10,..) p={} got={:?} want the element of rank {} = {}", n, p, v, idx, idx * 10));
                  }
               }
            },
         }
      }
   }
   println!("{{\"inputs\":{},\"nonempty_distinct_inputs\":{},\"exhaustive_inputs\":{},\"percentile_rank_sweep\":{},\"calls\":{},\"violations\":{}}}", multisets, st.nonempty_inputs, exhaustive, sweep, st.calls, st.viol.len());
   for (l, w) in &st.viol {
      println!("{{\"violation\":true,\"what\":\"{}\",\"witness\":\"{}\"}}", l, json_escape(w));
   }
   println!("{{\"done\":true}}");
}
