//! C16: lattice laws + truthful change flags, exhaustively over small carriers.
//! Output: one JSON line per (type) with counts, and one per violated (type, law) with the first witness.
use std::cmp::{Ordering, Reverse};
use std::fmt::Debug;
use std::panic::{catch_unwind, AssertUnwindSafe};
use std::rc::Rc;
use std::sync::Arc;

use ascent::lattice::bounded_set::BoundedSet;
use ascent::lattice::constant_propagation::ConstPropagation;
use ascent::lattice::ord_lattice::OrdLattice;
use ascent::lattice::set::Set;
use ascent::lattice::{BoundedLattice, Product};
use ascent::{Dual, Lattice};
use libmon::*;

struct Report {
   name: String,
   carrier: usize,
   pairs: u64,
   distinct_pairs: u64,
   triples: u64,
   viol: Vec<(String, String)>,
   exhaustive_triples: bool,
}

impl Report {
   fn fail(&mut self, law: &str, w: String) {
      if !self.viol.iter().any(|(l, _)| l == law) {
         self.viol.push((law.to_string(), w));
      }
   }
}

fn leq<T: PartialOrd>(a: &T, b: &T) -> bool { matches!(a.partial_cmp(b), Some(Ordering::Less) | Some(Ordering::Equal)) }

fn check<T: Lattice + Clone + PartialEq + Debug>(name: &str, carrier: Vec<T>, rng: &mut Rng, triple_budget: u64) -> Report {
   let mut r = Report { name: name.into(), carrier: carrier.len(), pairs: 0, distinct_pairs: 0, triples: 0, viol: vec![], exhaustive_triples: false };
   for a in &carrier {
      for b in &carrier {
         r.pairs += 1;
         if a != b {
            r.distinct_pairs += 1;
         }
         let res = catch_unwind(AssertUnwindSafe(|| {
            let mut fails: Vec<(&str, String)> = vec![];
            let j = a.clone().join(b.clone());
            let m = a.clone().meet(b.clone());
            if j != b.clone().join(a.clone()) {
               fails.push(("join_commutative", format!("a={:?} b={:?}", a, b)));
            }
            if m != b.clone().meet(a.clone()) {
               fails.push(("meet_commutative", format!("a={:?} b={:?}", a, b)));
            }
            if a.clone().join(a.clone()) != *a {
               fails.push(("join_idempotent", format!("a={:?}", a)));
            }
            if a.clone().meet(a.clone()) != *a {
               fails.push(("meet_idempotent", format!("a={:?}", a)));
            }
            if a.clone().join(m.clone()) != *a {
               fails.push(("absorption_join_meet", format!("a={:?} b={:?} meet={:?}", a, b, m)));
            }
            if a.clone().meet(j.clone()) != *a {
               fails.push(("absorption_meet_join", format!("a={:?} b={:?} join={:?}", a, b, j)));
            }
            let le = leq(a, b);
            if le != (j == *b) {
               fails.push(("order_agrees_with_join", format!("a={:?} b={:?} a<=b:{} join={:?}", a, b, le, j)));
            }
            if le != (m == *a) {
               fails.push(("order_agrees_with_meet", format!("a={:?} b={:?} a<=b:{} meet={:?}", a, b, le, m)));
            }
            // partial_cmp consistency
            if (a == b) != (a.partial_cmp(b) == Some(Ordering::Equal)) {
               fails.push(("partial_cmp_equal_iff_eq", format!("a={:?} b={:?}", a, b)));
            }
            let mut x = a.clone();
            let ch = x.join_mut(b.clone());
            if x != j {
               fails.push(("join_mut_equals_join", format!("a={:?} b={:?} join_mut={:?} join={:?}", a, b, x, j)));
            }
            if ch != (x != *a) {
               fails.push(("join_mut_change_flag", format!("a={:?} b={:?} result={:?} flag={}", a, b, x, ch)));
            }
            let mut y = a.clone();
            let ch = y.meet_mut(b.clone());
            if y != m {
               fails.push(("meet_mut_equals_meet", format!("a={:?} b={:?} meet_mut={:?} meet={:?}", a, b, y, m)));
            }
            if ch != (y != *a) {
               fails.push(("meet_mut_change_flag", format!("a={:?} b={:?} result={:?} flag={}", a, b, y, ch)));
            }
            fails
         }));
         match res {
            Ok(fails) =>
               for (l, w) in fails {
                  r.fail(l, w)
               },
            Err(e) => r.fail("no_panic", format!("a={:?} b={:?}: {}", a, b, panic_message(e))),
         }
      }
   }
   let n = carrier.len() as u64;
   let all = n * n * n;
   let mut tri = |a: &T, b: &T, c: &T, r: &mut Report| {
      r.triples += 1;
      let res = catch_unwind(AssertUnwindSafe(|| {
         let l = a.clone().join(b.clone()).join(c.clone());
         let rr = a.clone().join(b.clone().join(c.clone()));
         let l2 = a.clone().meet(b.clone()).meet(c.clone());
         let r2 = a.clone().meet(b.clone().meet(c.clone()));
         (l == rr, l2 == r2)
      }));
      match res {
         Ok((j, m)) => {
            if !j {
               r.fail("join_associative", format!("a={:?} b={:?} c={:?}", a, b, c));
            }
            if !m {
               r.fail("meet_associative", format!("a={:?} b={:?} c={:?}", a, b, c));
            }
         },
         Err(e) => r.fail("no_panic", format!("triple a={:?} b={:?} c={:?}: {}", a, b, c, panic_message(e))),
      }
   };
   if all <= triple_budget {
      r.exhaustive_triples = true;
      for a in &carrier {
         for b in &carrier {
            for c in &carrier {
               tri(a, b, c, &mut r);
            }
         }
      }
   } else {
      for _ in 0..triple_budget {
         let (a, b, c) = (&carrier[rng.below(carrier.len())], &carrier[rng.below(carrier.len())], &carrier[rng.below(carrier.len())]);
         tri(a, b, c, &mut r);
      }
   }
   r
}

fn check_bounded<T: BoundedLattice + Clone + PartialEq + Debug>(r: &mut Report, carrier: &[T]) {
   let (top, bot) = (T::top(), T::bottom());
   for a in carrier {
      if !leq(&bot, a) || !leq(a, &top) {
         r.fail("top_bottom_extremal", format!("a={:?} bottom={:?} top={:?}", a, bot, top));
      }
      if a.clone().join(top.clone()) != top || a.clone().meet(bot.clone()) != bot {
         r.fail("top_bottom_absorb", format!("a={:?}", a));
      }
      if a.clone().join(bot.clone()) != *a || a.clone().meet(top.clone()) != *a {
         r.fail("top_bottom_neutral", format!("a={:?}", a));
      }
   }
}

fn check_dual<T: Lattice + Clone + PartialEq + Debug>(r: &mut Report, carrier: &[T]) {
   for a in carrier {
      for b in carrier {
         if Dual(a.clone()).join(Dual(b.clone())).0 != a.clone().meet(b.clone()) || Dual(a.clone()).meet(Dual(b.clone())).0 != a.clone().join(b.clone()) {
            r.fail("dual_swaps_operations", format!("a={:?} b={:?}", a, b));
         }
         if Dual(a.clone()).partial_cmp(&Dual(b.clone())) != b.partial_cmp(a) {
            r.fail("dual_swaps_order", format!("a={:?} b={:?}", a, b));
         }
         if Reverse(a.clone()).join(Reverse(b.clone())).0 != a.clone().meet(b.clone()) || Reverse(a.clone()).meet(Reverse(b.clone())).0 != a.clone().join(b.clone()) {
            r.fail("reverse_swaps_operations", format!("a={:?} b={:?}", a, b));
         }
      }
   }
}

fn emit(r: &Report) {
   println!(
      "{{\"type\":\"{}\",\"carrier\":{},\"pairs\":{},\"pairs_with_distinct_elements\":{},\"triples\":{},\"exhaustive_triples\":{},\"violations\":{}}}",
      json_escape(&r.name),
      r.carrier,
      r.pairs,
      r.distinct_pairs,
      r.triples,
      r.exhaustive_triples,
      r.viol.len()
   );
   for (l, w) in &r.viol {
      println!("{{\"violation\":true,\"type\":\"{}\",\"law\":\"{}\",\"witness\":\"{}\"}}", json_escape(&r.name), l, json_escape(w));
   }
}

fn subsets(n: u8) -> Vec<Set<u8>> {
   (0..(1u32 << n)).map(|m| Set((0..n).filter(|i| m & (1 << i) != 0).collect())).collect()
}

fn main() {
   quiet_panics();
   let seed = arg("seed", 1);
   let budget = arg("triples", 100_000);
   let small = arg("small", 0) == 1; // reduced carriers (Miri)
   let miri = arg("miri", 0) == 1; // only the types whose impls contain unsafe / shared-ownership paths or heap structures
   let mut rng = Rng::new(seed);
   let i8s: Vec<i8> = if small { vec![i8::MIN, 0, 1, i8::MAX] } else { vec![i8::MIN, -1, 0, 1, 2, i8::MAX] };
   let u8s: Vec<u8> = if small { vec![0, 1, 255] } else { vec![0, 1, 2, 3, 254, 255] };
   let bools = vec![false, true];
   let sets = subsets(if small { 2 } else { 4 });
   macro_rules! run {
      ($name:expr, $carrier:expr) => {{
         let c = $carrier;
         let mut r = check($name, c.clone(), &mut rng, budget);
         check_dual(&mut r, &c);
         emit(&r);
         // the Dual / Reverse wrappers must themselves be lattices
         let d: Vec<_> = c.iter().cloned().map(Dual).collect();
         emit(&check(&format!("Dual<{}>", $name), d, &mut rng, budget));
         let rv: Vec<_> = c.iter().cloned().map(Reverse).collect();
         emit(&check(&format!("Reverse<{}>", $name), rv, &mut rng, budget));
      }};
   }
   macro_rules! run_bounded {
      ($name:expr, $carrier:expr) => {{
         let c = $carrier;
         let mut r = check($name, c.clone(), &mut rng, budget);
         check_dual(&mut r, &c);
         check_bounded(&mut r, &c);
         emit(&r);
         let d: Vec<_> = c.iter().cloned().map(Dual).collect();
         let mut rd = check(&format!("Dual<{}>", $name), d.clone(), &mut rng, budget);
         check_bounded(&mut rd, &d);
         emit(&rd);
      }};
   }
   let opt_i8: Vec<Option<i8>> = std::iter::once(None).chain(i8s.iter().cloned().map(Some)).collect();
   if !miri {
   run_bounded!("bool", bools.clone());
   run_bounded!("i8", i8s.clone());
   run_bounded!("u8", u8s.clone());
   run_bounded!("i64", vec![i64::MIN, -1, 0, 1, i64::MAX]);
   run_bounded!("usize", vec![0usize, 1, 2, usize::MAX]);
   run_bounded!("i128", vec![i128::MIN, -5, 0, 7, i128::MAX]);
   run_bounded!("Option<i8>", opt_i8.clone());
   let opt_opt: Vec<Option<Option<bool>>> = vec![None, Some(None), Some(Some(false)), Some(Some(true))];
   run!("Option<Option<bool>>", opt_opt);
   run!("OrdLattice<i8>", i8s.iter().cloned().map(OrdLattice).collect::<Vec<_>>());
   run!("OrdLattice<(i8,bool)>", i8s.iter().flat_map(|&a| bools.iter().map(move |&b| OrdLattice((a, b)))).collect::<Vec<_>>());
   }
   // Rc / Arc / Box: unique and shared ownership (make_mut paths)
   let rcs: Vec<Rc<i8>> = i8s.iter().cloned().map(Rc::new).collect();
   let _keep_shared: Vec<Rc<i8>> = rcs.iter().step_by(2).cloned().collect();
   run!("Rc<i8>", rcs);
   let arcs: Vec<Arc<Option<i8>>> = opt_i8.iter().cloned().map(Arc::new).collect();
   let _keep_shared2: Vec<Arc<Option<i8>>> = arcs.iter().step_by(2).cloned().collect();
   run!("Arc<Option<i8>>", arcs);
   run!("Box<i8>", i8s.iter().cloned().map(Box::new).collect::<Vec<_>>());
   run!("Rc<Set<u8>>", sets.iter().cloned().map(Rc::new).collect::<Vec<_>>());
   if !miri {
   // tuples (lexicographic)
   run!("(i8,)", i8s.iter().map(|&a| (a,)).collect::<Vec<_>>());
   run_bounded!("(i8,bool)", i8s.iter().flat_map(|&a| bools.iter().map(move |&b| (a, b))).collect::<Vec<_>>());
   run!("(bool,i8,bool)", bools.iter().flat_map(|&a| i8s.iter().flat_map(move |&b| [false, true].into_iter().map(move |c| (a, b, c)))).collect::<Vec<_>>());
   // products (component-wise)
   run_bounded!("Product<(i8,bool)>", i8s.iter().flat_map(|&a| bools.iter().map(move |&b| Product((a, b)))).collect::<Vec<_>>());
   run_bounded!("Product<(i8,i8,bool)>", i8s.iter().flat_map(|&a| [i8::MIN, 0, i8::MAX].into_iter().flat_map(move |b| [false, true].into_iter().map(move |c| Product((a, b, c))))).collect::<Vec<_>>());
   run_bounded!("Product<[i8;2]>", i8s.iter().flat_map(|&a| [i8::MIN, -1, 3, i8::MAX].into_iter().map(move |b| Product([a, b]))).collect::<Vec<_>>());
   run_bounded!("Product<[bool;3]>", (0..8u8).map(|m| Product([m & 1 != 0, m & 2 != 0, m & 4 != 0])).collect::<Vec<_>>());
   run!("Product<(Set<u8>,i8)>", subsets(2).into_iter().flat_map(|s| [i8::MIN, 0, 5].into_iter().map(move |b| Product((s.clone(), b)))).collect::<Vec<_>>());
   }
   // sets
   run!("Set<u8>", sets.clone());
   let mut bs2: Vec<BoundedSet<2, u8>> = sets.iter().cloned().map(BoundedSet::from_set).collect();
   bs2.push(BoundedSet::TOP);
   bs2.dedup();
   run_bounded!("BoundedSet<2,u8>", { let mut v: Vec<BoundedSet<2, u8>> = vec![]; for x in bs2 { if !v.contains(&x) { v.push(x) } } v });
   let mut bs3: Vec<BoundedSet<3, u8>> = vec![];
   for s in sets.iter().cloned() {
      let x = BoundedSet::from_set(s);
      if !bs3.contains(&x) {
         bs3.push(x);
      }
   }
   if !bs3.contains(&BoundedSet::TOP) {
      bs3.push(BoundedSet::TOP);
   }
   run_bounded!("BoundedSet<3,u8>", bs3);
   let mut bs0: Vec<BoundedSet<0, u8>> = vec![BoundedSet::new(), BoundedSet::singleton(1), BoundedSet::TOP];
   bs0.dedup();
   run_bounded!("BoundedSet<0,u8>", { let mut v: Vec<BoundedSet<0, u8>> = vec![]; for x in bs0 { if !v.contains(&x) { v.push(x) } } v });
   if !miri {
   // constant propagation
   let cps: Vec<ConstPropagation<u8>> = vec![ConstPropagation::Bottom, ConstPropagation::Constant(0), ConstPropagation::Constant(1), ConstPropagation::Constant(2), ConstPropagation::Constant(3), ConstPropagation::Top];
   run_bounded!("ConstPropagation<u8>", cps.clone());
   // nested compositions
   run!("Product<(ConstPropagation<u8>,ConstPropagation<u8>)>", cps.iter().flat_map(|a| cps.iter().map(move |b| Product((*a, *b)))).collect::<Vec<_>>());
   let nested: Vec<Dual<Option<Product<(u8, Set<u8>)>>>> = std::iter::once(Dual(None))
      .chain([0u8, 1, 255].into_iter().flat_map(|a| subsets(2).into_iter().map(move |s| Dual(Some(Product((a, s)))))))
      .collect();
   run!("Dual<Option<Product<(u8,Set<u8>)>>>", nested);
   run!("Option<Dual<ConstPropagation<u8>>>", std::iter::once(None).chain(cps.iter().map(|c| Some(Dual(*c)))).collect::<Vec<_>>());
   run!("Dual<Dual<i8>>", i8s.iter().map(|&a| Dual(Dual(a))).collect::<Vec<_>>());
   run!("(Dual<i8>,Option<bool>)", i8s.iter().flat_map(|&a| [None, Some(false), Some(true)].into_iter().map(move |b| (Dual(a), b))).collect::<Vec<_>>());
   }
   if !miri {
   // random larger values
   let mut big: Vec<u64> = (0..24).map(|_| rng.next()).collect();
   big.extend([0, u64::MAX]);
   run_bounded!("u64(random)", big);
   let bigsets: Vec<Set<u8>> = (0..40).map(|_| Set((0..12u8).filter(|_| rng.chance(1, 2)).collect())).collect();
   run!("Set<u8>(random 12-element universe)", bigsets);
   }
   println!("{{\"done\":true}}");
}
