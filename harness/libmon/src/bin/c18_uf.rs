//! C18: TrRelUnionFind and UnionFind vs reference closures, compared after EVERY operation.
use std::collections::{BTreeMap, BTreeSet};
use std::panic::{catch_unwind, AssertUnwindSafe};

use ascent_byods_rels::trrel_union_find::TrRelUnionFind;
use ascent_byods_rels::uf::UnionFind;
use libmon::*;

struct Stats {
   histories: u64,
   histories_ge2: u64,
   ops: u64,
   queries: u64,
   viol: Vec<(String, String)>,
}
impl Stats {
   fn fail(&mut self, what: &str, w: String) {
      if !self.viol.iter().any(|(l, _)| l == what) {
         self.viol.push((what.to_string(), w));
      }
   }
}

/// reference: reflexive transitive closure on mentioned elements, as a boolean matrix (Floyd-Warshall)
struct RefClosure {
   n: usize,
   m: Vec<bool>,
   mentioned: Vec<bool>,
}
impl RefClosure {
   fn new(n: usize) -> Self { Self { n, m: vec![false; n * n], mentioned: vec![false; n] } }
   fn add(&mut self, x: usize, y: usize) {
      let n = self.n;
      self.mentioned[x] = true;
      self.mentioned[y] = true;
      self.m[x * n + x] = true;
      self.m[y * n + y] = true;
      self.m[x * n + y] = true;
      for k in 0..n {
         for i in 0..n {
            if self.m[i * n + k] {
               for j in 0..n {
                  if self.m[k * n + j] {
                     self.m[i * n + j] = true;
                  }
               }
            }
         }
      }
   }
   fn has(&self, x: usize, y: usize) -> bool { self.m[x * self.n + y] }
}

fn check_trrel_history(n: usize, hist: &[(usize, usize)], st: &mut Stats) {
   st.histories += 1;
   if hist.len() >= 2 {
      st.histories_ge2 += 1;
   }
   let res = catch_unwind(AssertUnwindSafe(|| {
      let mut fails: Vec<(&'static str, String)> = vec![];
      let mut uf = TrRelUnionFind::<usize>::default();
      let mut rf = RefClosure::new(n);
      let mut ops = 0u64;
      let mut queries = 0u64;
      for (step, &(x, y)) in hist.iter().enumerate() {
         // (the boolean returned by `add` is not part of the property: it may report `true` for a pair that was
         // already implied, which only costs an extra iteration)
         let _ = uf.add(x, y);
         rf.add(x, y);
         ops += 1;
         let ctx = || format!("history={:?} after step {}", hist, step);
         uf.assert_disjoint_invariant();
         uf.assert_set_connections_dominant_sets();
         if uf.is_empty() {
            fails.push(("is_empty_after_add", ctx()));
         }
         let mut all: BTreeSet<(usize, usize)> = BTreeSet::new();
         let mut dup = false;
         for (a, b) in uf.iter_all() {
            if !all.insert((*a, *b)) {
               dup = true;
            }
         }
         if dup {
            fails.push(("iter_all_yields_duplicates", ctx()));
         }
         let mut want: BTreeSet<(usize, usize)> = BTreeSet::new();
         for i in 0..n {
            for j in 0..n {
               queries += 1;
               if rf.has(i, j) {
                  want.insert((i, j));
               }
               if uf.contains(&i, &j) != rf.has(i, j) {
                  fails.push(("contains", format!("{} contains({},{})={} want {}", ctx(), i, j, uf.contains(&i, &j), rf.has(i, j))));
               }
            }
            // every answer is a set: an element listed twice would be a tuple listed twice by the index built on this
            for (what, listed) in [("set_of_yields_duplicates", uf.set_of(&i).map(|it| it.cloned().collect::<Vec<usize>>())),
                                   ("rev_set_of_yields_duplicates", uf.rev_set_of(&i).map(|it| it.cloned().collect::<Vec<usize>>()))] {
               if let Some(l) = listed {
                  let distinct: BTreeSet<usize> = l.iter().cloned().collect();
                  if distinct.len() != l.len() {
                     fails.push((what, format!("{} element {} listed {:?}", ctx(), i, l)));
                  }
               }
            }
            let so: Option<BTreeSet<usize>> = uf.set_of(&i).map(|it| it.cloned().collect());
            let want_so: BTreeSet<usize> = (0..n).filter(|&j| rf.has(i, j)).collect();
            if rf.mentioned[i] != so.is_some() || so.as_ref().is_some_and(|s| *s != want_so) {
               fails.push(("set_of", format!("{} set_of({})={:?} want {:?}", ctx(), i, so, want_so)));
            }
            let rso: Option<BTreeSet<usize>> = uf.rev_set_of(&i).map(|it| it.cloned().collect());
            let want_rso: BTreeSet<usize> = (0..n).filter(|&j| rf.has(j, i)).collect();
            if rf.mentioned[i] != rso.is_some() || rso.as_ref().is_some_and(|s| *s != want_rso) {
               fails.push(("rev_set_of", format!("{} rev_set_of({})={:?} want {:?}", ctx(), i, rso, want_rso)));
            }
         }
         if all != want {
            fails.push(("iter_all", format!("{} got {:?} want {:?}", ctx(), all, want)));
         }
         if uf.count_exact() != want.len() {
            fails.push(("count_exact", format!("{} got {} want {}", ctx(), uf.count_exact(), want.len())));
         }
         if !fails.is_empty() {
            break;
         }
      }
      (fails, ops, queries)
   }));
   match res {
      Ok((fails, ops, q)) => {
         st.ops += ops;
         st.queries += q;
         for (l, w) in fails {
            st.fail(l, w);
         }
      },
      Err(e) => st.fail("trrel_uf_panic", format!("history={:?}: {}", hist, panic_message(e))),
   }
}

#[derive(Clone, Copy, Debug)]
enum UfOp {
   Add(usize),
   AddClone(usize),
   Union(usize, usize),
   UnionClone(usize, usize),
   Find(usize),
   UnionIds(usize, usize),
}

fn check_uf_history(n: usize, hist: &[UfOp], st: &mut Stats) {
   st.histories += 1;
   if hist.len() >= 2 {
      st.histories_ge2 += 1;
   }
   let res = catch_unwind(AssertUnwindSafe(|| {
      let mut fails: Vec<(&'static str, String)> = vec![];
      let mut uf = UnionFind::<usize>::default();
      let mut class: BTreeMap<usize, usize> = BTreeMap::new(); // item -> class representative (naive)
      let mut ids = BTreeMap::new();
      let mut ops = 0u64;
      let mut queries = 0u64;
      for (step, op) in hist.iter().enumerate() {
         ops += 1;
         let ctx = || format!("history={:?} after step {}", hist, step);
         match *op {
            UfOp::Add(x) => {
               let known = class.contains_key(&x);
               let (new, id) = uf.add(x);
               if new == known {
                  fails.push(("uf_add_return", ctx()));
               }
               class.entry(x).or_insert(x);
               ids.entry(x).or_insert(id);
            },
            UfOp::AddClone(x) => {
               let known = class.contains_key(&x);
               let (new, id) = uf.add_clone(&x);
               if new == known {
                  fails.push(("uf_add_return", ctx()));
               }
               class.entry(x).or_insert(x);
               ids.entry(x).or_insert(id);
            },
            UfOp::Union(x, y) | UfOp::UnionClone(x, y) => {
               if matches!(*op, UfOp::Union(..)) {
                  uf.union_add(x, y);
               } else {
                  uf.union_add_clone(&x, &y);
               }
               class.entry(x).or_insert(x);
               class.entry(y).or_insert(y);
               let (cx, cy) = (class[&x], class[&y]);
               for v in class.values_mut() {
                  if *v == cy {
                     *v = cx;
                  }
               }
            },
            UfOp::Find(x) => {
               let r = uf.find_item(&x);
               if r.is_some() != class.contains_key(&x) {
                  fails.push(("uf_find_presence", ctx()));
               }
            },
            UfOp::UnionIds(x, y) =>
               if let (Some(&ix), Some(&iy)) = (ids.get(&x), ids.get(&y)) {
                  // SAFETY: both ids were returned by `add` on this structure
                  unsafe {
                     let fx = uf.find(ix);
                     let _ = uf.find(iy);
                     uf.union(fx, iy);
                  }
                  let (cx, cy) = (class[&x], class[&y]);
                  for v in class.values_mut() {
                     if *v == cy {
                        *v = cx;
                     }
                  }
               },
         }
         if !uf.verif_ok() {
            fails.push(("uf_internal_consistency", ctx()));
         }
         if uf.len() != class.len() || uf.is_empty() != class.is_empty() {
            fails.push(("uf_len", ctx()));
         }
         for i in 0..n {
            for j in 0..n {
               queries += 1;
               let (ri, rj) = (uf.find_item(&i), uf.find_item(&j));
               let same = ri.is_some() && rj.is_some() && ri == rj;
               let want = class.contains_key(&i) && class.contains_key(&j) && class[&i] == class[&j];
               if same != want {
                  fails.push(("uf_same_class", format!("{} items {} {}: same={} want={}", ctx(), i, j, same, want)));
               }
            }
         }
         if !fails.is_empty() {
            break;
         }
      }
      (fails, ops, queries)
   }));
   match res {
      Ok((fails, ops, q)) => {
         st.ops += ops;
         st.queries += q;
         for (l, w) in fails {
            st.fail(l, w);
         }
      },
      Err(e) => st.fail("uf_panic", format!("history={:?}: {}", hist, panic_message(e))),
   }
}

fn main() {
   quiet_panics();
   let seed = arg("seed", 1);
   let len = arg("len", 4) as usize;
   let uflen = arg("uflen", 4) as usize;
   let nrandom = arg("random", 2000);
   let which = arg("which", 3); // bit 1: trrel_uf, bit 2: uf
   // --shard=i --nshards=n: this process takes the histories whose running index is i modulo n (every history is generated
   // from its own index, so the union over the shards is the same set of histories whatever n is)
   let shard = arg("shard", 0) as u64;
   let nshards = arg("nshards", 1).max(1) as u64;
   let mut hidx = 0u64;
   macro_rules! mine { () => {{ hidx += 1; (hidx - 1) % nshards == shard }} }
   let mut rng = Rng::new(seed);
   let mut st = Stats { histories: 0, histories_ge2: 0, ops: 0, queries: 0, viol: vec![] };
   let n = 4usize;
   let mut exhaustive = 0u64;
   if arg("miri", 0) == 1 {
      // a few short histories that collapse cycles over merged classes and exercise path compression / union by rank
      for hist in [vec![(0, 1), (1, 2), (2, 0), (3, 0), (0, 3)], vec![(1, 1), (2, 3), (3, 2), (1, 2), (3, 1)], vec![(0, 1), (0, 1), (2, 3), (1, 2), (3, 0)]] {
         check_trrel_history(n, &hist, &mut st);
      }
      for hist in [vec![UfOp::Add(0), UfOp::Union(1, 2), UfOp::Find(2), UfOp::UnionIds(0, 2), UfOp::Find(1), UfOp::Union(2, 0)],
                   vec![UfOp::Union(0, 1), UfOp::Union(2, 0), UfOp::Add(1), UfOp::UnionIds(1, 2), UfOp::Find(0)]] {
         check_uf_history(3, &hist, &mut st);
      }
      println!("{{\"histories\":{},\"histories_with_2_or_more_operations\":{},\"exhaustive_histories\":0,\"operations\":{},\"queries_compared\":{},\"violations\":{}}}", st.histories, st.histories_ge2, st.ops, st.queries, st.viol.len());
      for (l, w) in &st.viol {
         println!("{{\"violation\":true,\"what\":\"{}\",\"witness\":\"{}\"}}", l, json_escape(w));
      }
      println!("{{\"done\":true}}");
      return;
   }
   if which & 1 != 0 {
      // all add-sequences of length 1..=len over 4 elements (16 pairs per step)
      for l in 1..=len {
         let total = 16usize.pow(l as u32);
         for code in 0..total {
            if !mine!() { continue; }
            let mut c = code;
            let hist: Vec<(usize, usize)> = (0..l).map(|_| {
               let p = c % 16;
               c /= 16;
               (p / 4, p % 4)
            }).collect();
            check_trrel_history(n, &hist, &mut st);
            exhaustive += 1;
         }
      }
      for ri in 0..nrandom {
         if !mine!() { continue; }
         let mut rng = Rng::new(seed.wrapping_mul(1000003).wrapping_add(ri as u64 * 2 + 1));
         let dom = 3 + rng.below(38);
         let l = 10 + rng.below(if dom > 12 { 290 } else { 60 });
         let mut hist = vec![];
         let mut rf = RefClosure::new(dom);
         for _ in 0..l {
            let x = rng.below(dom);
            // bias towards closing cycles: choose y among ancestors of x
            let anc: Vec<usize> = (0..dom).filter(|&a| rf.has(a, x)).collect();
            let y = if !anc.is_empty() && rng.chance(1, 3) { anc[rng.below(anc.len())] } else { rng.below(dom) };
            rf.add(x, y);
            hist.push((x, y));
         }
         check_trrel_history(dom, &hist, &mut st);
      }
   }
   if which & 2 != 0 {
      // all UnionFind op sequences of length uflen over 3 items with 4 op kinds
      let items = 3usize;
      let mut alphabet = vec![];
      for x in 0..items {
         alphabet.push(UfOp::Add(x));
         alphabet.push(UfOp::AddClone(x));
         alphabet.push(UfOp::Find(x));
         for y in 0..items {
            alphabet.push(UfOp::Union(x, y));
            alphabet.push(UfOp::UnionClone(x, y));
            if x < y {
               alphabet.push(UfOp::UnionIds(x, y));
            }
         }
      }
      for l in 1..=uflen {
         let total = alphabet.len().pow(l as u32);
         for code in 0..total {
            if !mine!() { continue; }
            let mut c = code;
            let hist: Vec<UfOp> = (0..l).map(|_| {
               let o = alphabet[c % alphabet.len()];
               c /= alphabet.len();
               o
            }).collect();
            check_uf_history(items, &hist, &mut st);
            exhaustive += 1;
         }
      }
      for ri in 0..nrandom {
         if !mine!() { continue; }
         let mut rng = Rng::new(seed.wrapping_mul(1000003).wrapping_add(ri as u64 * 2 + 2));
         let dom = 3 + rng.below(30);
         let l = 10 + rng.below(120);
         let hist: Vec<UfOp> = (0..l).map(|_| match rng.below(6) {
            0 => UfOp::Add(rng.below(dom)),
            4 => UfOp::AddClone(rng.below(dom)),
            5 => UfOp::UnionClone(rng.below(dom), rng.below(dom)),
            1 => UfOp::Find(rng.below(dom)),
            2 => UfOp::UnionIds(rng.below(dom), rng.below(dom)),
            _ => UfOp::Union(rng.below(dom), rng.below(dom)),
         }).collect();
         check_uf_history(dom, &hist, &mut st);
      }
   }
   println!("{{\"histories\":{},\"histories_with_2_or_more_operations\":{},\"exhaustive_histories\":{},\"operations\":{},\"queries_compared\":{},\"violations\":{}}}", st.histories, st.histories_ge2, exhaustive, st.ops, st.queries, st.viol.len());
   for (l, w) in &st.viol {
      println!("{{\"violation\":true,\"what\":\"{}\",\"witness\":\"{}\"}}", l, json_escape(w));
   }
   println!("{{\"done\":true}}");
}
