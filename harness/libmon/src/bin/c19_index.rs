//! C19: index building blocks vs multimap / map models: insert, insert-if-absent, lookup, iteration, the merge step with
//! either side larger, freeze / unfreeze, the combined total+delta view; concurrent inserts with unique values.
use std::collections::{BTreeMap, BTreeSet};
use std::panic::{catch_unwind, AssertUnwindSafe};

use ascent::internal::*;
use ascent::rayon;
use ascent::rayon::prelude::*;
use libmon::*;

type K = (u8,);
type V = (u32,);
type Model = BTreeMap<u8, Vec<u32>>;

fn norm(m: &Model) -> Model {
   let mut r = Model::new();
   for (k, v) in m {
      if !v.is_empty() {
         let mut v = v.clone();
         v.sort();
         r.insert(*k, v);
      }
   }
   r
}

/// uniform test interface over the index types
trait Idx: Default {
   const NAME: &'static str;
   /// set semantics per key (lattice indices) / map semantics (full index)
   const KIND: u8; // 0 multimap, 1 set-per-key, 2 map, 3 no-index
   fn insert(&mut self, k: u8, v: u32);
   fn get(&self, k: u8) -> Option<Vec<u32>>;
   fn all(&self) -> Vec<(u8, u32)>;
   fn is_empty_claim(&self) -> bool;
   fn freeze_(&mut self) {}
   fn unfreeze_(&mut self) {}
   fn merge(new: &mut Self, delta: &mut Self, total: &mut Self);
}

macro_rules! ser_idx {
   ($ty:ty, $name:expr, $kind:expr, $keyexpr:expr, $allmap:expr) => {
      impl Idx for $ty {
         const NAME: &'static str = $name;
         const KIND: u8 = $kind;
         fn insert(&mut self, k: u8, v: u32) { RelIndexWrite::index_insert(self, (k,), (v,)) }
         fn get(&self, k: u8) -> Option<Vec<u32>> { RelIndexRead::index_get(self, &(k,)).map(|it| it.map(|x| x.0).collect()) }
         fn all(&self) -> Vec<(u8, u32)> { RelIndexReadAll::iter_all(self).flat_map(|(k, vs)| vs.map(move |v| (k.0, v.0))).collect() }
         fn is_empty_claim(&self) -> bool { RelIndexRead::is_empty(self) }
         fn merge(new: &mut Self, delta: &mut Self, total: &mut Self) { RelIndexMerge::merge_delta_to_total_new_to_delta(new, delta, total) }
      }
   };
}
ser_idx!(RelIndexType1<K, V>, "RelIndexType1", 0, k, v);
ser_idx!(LatticeIndexType<K, V>, "LatticeIndexType", 1, k, v);
ser_idx!(RelFullIndexType<K, V>, "RelFullIndexType", 2, k, v);

macro_rules! con_idx {
   ($ty:ty, $name:expr, $kind:expr) => {
      impl Idx for $ty {
         const NAME: &'static str = $name;
         const KIND: u8 = $kind;
         fn insert(&mut self, k: u8, v: u32) { RelIndexWrite::index_insert(self, (k,), (v,)) }
         fn get(&self, k: u8) -> Option<Vec<u32>> { RelIndexRead::index_get(self, &(k,)).map(|it| it.map(|x| x.0).collect()) }
         fn all(&self) -> Vec<(u8, u32)> { RelIndexReadAll::iter_all(self).flat_map(|(k, vs)| vs.map(move |v| (k.0, v.0))).collect() }
         fn is_empty_claim(&self) -> bool { RelIndexRead::is_empty(self) }
         fn freeze_(&mut self) { Freezable::freeze(self) }
         fn unfreeze_(&mut self) { Freezable::unfreeze(self) }
         fn merge(new: &mut Self, delta: &mut Self, total: &mut Self) { RelIndexMerge::merge_delta_to_total_new_to_delta(new, delta, total) }
      }
   };
}
con_idx!(CRelIndex<K, V>, "CRelIndex", 0);
con_idx!(CLatIndex<K, V>, "CLatIndex", 1);
con_idx!(CRelFullIndex<K, V>, "CRelFullIndex", 2);

struct Stats {
   sequences: u64,
   sequences_ge2: u64,
   ops: u64,
   merges_swapped: u64,
   merges_unswapped: u64,
   viol: Vec<(String, String)>,
}
impl Stats {
   fn fail(&mut self, what: String, w: String) {
      if !self.viol.iter().any(|(l, _)| *l == what) {
         self.viol.push((what, w));
      }
   }
}

fn model_insert(kind: u8, m: &mut Model, k: u8, v: u32) {
   let e = m.entry(k).or_default();
   match kind {
      1 =>
         if !e.contains(&v) {
            e.push(v)
         },
      2 => {
         e.clear();
         e.push(v)
      },
      _ => e.push(v),
   }
}

fn model_merge(kind: u8, new: &mut Model, delta: &mut Model, total: &mut Model) {
   for (k, vs) in std::mem::take(delta) {
      for v in vs {
         model_insert(kind, total, k, v);
      }
   }
   *delta = std::mem::take(new);
}

fn compare<I: Idx>(st: &mut Stats, which: &str, idx: &I, model: &Model, keys: &[u8], ctx: &str) {
   let m = norm(model);
   for &k in keys {
      let got = idx.get(k).map(|mut v| {
         v.sort();
         v
      });
      let want = m.get(&k).cloned();
      // a present key with no values may be reported as Some(empty) or None
      let got_n = got.clone().filter(|v| !v.is_empty());
      if got_n != want {
         st.fail(format!("{}_lookup", I::NAME), format!("{} {} key {} got {:?} want {:?}", ctx, which, k, got, want));
      }
   }
   let mut all = idx.all();
   all.sort();
   let mut want_all: Vec<(u8, u32)> = m.iter().flat_map(|(k, vs)| vs.iter().map(move |v| (*k, *v))).collect();
   want_all.sort();
   if all != want_all {
      st.fail(format!("{}_iteration", I::NAME), format!("{} {} got {:?} want {:?}", ctx, which, all, want_all));
   }
   if idx.is_empty_claim() && !want_all.is_empty() {
      st.fail(format!("{}_is_empty_on_nonempty", I::NAME), format!("{} {}", ctx, which));
   }
}

#[derive(Clone, Copy, Debug)]
enum Op {
   Ins(u8, u32),
   Merge,
}

fn run_sequence<I: Idx>(ops: &[Op], keys: &[u8], st: &mut Stats) {
   st.sequences += 1;
   if ops.len() >= 2 {
      st.sequences_ge2 += 1;
   }
   let r = catch_unwind(AssertUnwindSafe(|| {
      let mut local = Stats { sequences: 0, sequences_ge2: 0, ops: 0, merges_swapped: 0, merges_unswapped: 0, viol: vec![] };
      let (mut new, mut delta, mut total) = (I::default(), I::default(), I::default());
      let (mut mn, mut md, mut mt) = (Model::new(), Model::new(), Model::new());
      for (i, op) in ops.iter().enumerate() {
         local.ops += 1;
         let ctx = format!("ops={:?} after op {}", ops, i);
         match *op {
            Op::Ins(k, v) => {
               // full index: generated code never inserts a key twice with different values
               let v = if I::KIND == 2 { (k as u32) * 1000 } else { v };
               new.insert(k, v);
               model_insert(I::KIND, &mut mn, k, v);
            },
            Op::Merge => {
               let (dl, tl) = (md.values().map(|v| v.len()).sum::<usize>(), mt.values().map(|v| v.len()).sum::<usize>());
               if md.len() > mt.len() {
                  local.merges_swapped += 1
               } else {
                  local.merges_unswapped += 1
               }
               let _ = (dl, tl);
               delta.unfreeze_();
               total.unfreeze_();
               // a defensive unfreeze of an index that is not frozen (`new` never is) must leave it alone
               new.unfreeze_();
               I::merge(&mut new, &mut delta, &mut total);
               model_merge(I::KIND, &mut mn, &mut md, &mut mt);
            },
         }
         // reads happen on frozen indices (the protocol generated code follows)
         delta.freeze_();
         total.freeze_();
         compare(&mut local, "delta", &delta, &md, keys, &ctx);
         compare(&mut local, "total", &total, &mt, keys, &ctx);
         // freeze / unfreeze round trip preserves contents
         total.unfreeze_();
         total.freeze_();
         compare(&mut local, "total(after unfreeze+freeze)", &total, &mt, keys, &ctx);
         // ... and both are idempotent: freezing a frozen index / unfreezing an unfrozen one changes nothing
         total.freeze_();
         delta.unfreeze_();
         delta.unfreeze_();
         delta.freeze_();
         delta.freeze_();
         compare(&mut local, "total(after a second freeze)", &total, &mt, keys, &ctx);
         compare(&mut local, "delta(after double unfreeze, double freeze)", &delta, &md, keys, &ctx);
         // `new` is only written, never read by generated code, but after a merge it must be empty
         if let Op::Merge = op {
            new.freeze_();
            compare(&mut local, "new(after merge)", &new, &Model::new(), keys, &ctx);
            new.unfreeze_();
         }
         if !local.viol.is_empty() {
            break;
         }
      }
      local
   }));
   match r {
      Ok(l) => {
         st.ops += l.ops;
         st.merges_swapped += l.merges_swapped;
         st.merges_unswapped += l.merges_unswapped;
         for (a, b) in l.viol {
            st.fail(a, b);
         }
      },
      Err(e) => st.fail(format!("{}_panic", I::NAME), format!("ops={:?}: {}", ops, panic_message(e))),
   }
}

fn exhaustive<I: Idx>(len: usize, st: &mut Stats) -> u64 {
   // alphabet: insert of (k in {0,1}) x (v in {1,2}) and merge
   let alpha = [Op::Ins(0, 1), Op::Ins(0, 2), Op::Ins(1, 1), Op::Ins(1, 2), Op::Merge];
   let mut n = 0;
   for l in 1..=len {
      let total = alpha.len().pow(l as u32);
      for code in 0..total {
         let mut c = code;
         let ops: Vec<Op> = (0..l).map(|_| {
            let o = alpha[c % alpha.len()];
            c /= alpha.len();
            o
         }).collect();
         run_sequence::<I>(&ops, &[0, 1, 2], st);
         n += 1;
      }
   }
   n
}

fn random<I: Idx>(rng: &mut Rng, count: u64, st: &mut Stats) {
   for _ in 0..count {
      let nkeys = 1 + rng.below(8) as u8;
      let len = 5 + rng.below(200);
      // size ratios between delta and total: bursts of inserts between merges
      let burst = [1usize, 1, 3, 20, 60][rng.below(5)];
      let mut ops = vec![];
      let mut vctr = 0u32;
      while ops.len() < len {
         let b = 1 + rng.below(burst);
         for _ in 0..b {
            vctr += 1;
            let v = if rng.chance(1, 4) { 1 + rng.below(3) as u32 } else { vctr };
            ops.push(Op::Ins(rng.below(nkeys as usize) as u8, v));
         }
         ops.push(Op::Merge);
         if rng.chance(1, 3) {
            ops.push(Op::Merge);
         }
      }
      let keys: Vec<u8> = (0..=nkeys).collect();
      run_sequence::<I>(&ops, &keys, st);
   }
}

// ---- no-index types (key = ()), values are row numbers
fn no_index_checks(rng: &mut Rng, count: u64, st: &mut Stats) {
   for _ in 0..count {
      st.sequences += 1;
      let r = catch_unwind(AssertUnwindSafe(|| {
         let mut fails = vec![];
         let (mut new, mut delta, mut total): (RelNoIndexType, RelNoIndexType, RelNoIndexType) = Default::default();
         let (mut mn, mut md, mut mt): (Vec<usize>, Vec<usize>, Vec<usize>) = Default::default();
         let (mut cnew, mut cdelta, mut ctotal): (CRelNoIndex<usize>, CRelNoIndex<usize>, CRelNoIndex<usize>) = Default::default();
         let mut ctr = 0usize;
         for _ in 0..(3 + rng.below(12)) {
            for _ in 0..rng.below(30) {
               ctr += 1;
               RelIndexWrite::index_insert(&mut new, (), ctr);
               RelIndexWrite::index_insert(&mut cnew, (), ctr);
               mn.push(ctr);
            }
            RelIndexMerge::merge_delta_to_total_new_to_delta(&mut new, &mut delta, &mut total);
            cdelta.unfreeze();
            ctotal.unfreeze();
            RelIndexMerge::merge_delta_to_total_new_to_delta(&mut cnew, &mut cdelta, &mut ctotal);
            mt.append(&mut md);
            md = std::mem::take(&mut mn);
            cdelta.freeze();
            ctotal.freeze();
            let s = |v: Vec<usize>| {
               let mut v = v;
               v.sort();
               v
            };
            let got_t = s(total.clone());
            let got_d = s(delta.clone());
            let cgot_t = s(RelIndexRead::index_get(&ctotal, &()).into_iter().flatten().cloned().collect());
            let cgot_d = s(RelIndexRead::index_get(&cdelta, &()).into_iter().flatten().cloned().collect());
            let cgot_t_all = s(RelIndexReadAll::iter_all(&ctotal).flat_map(|(_, vs)| vs.cloned()).collect());
            if got_t != s(mt.clone()) || got_d != s(md.clone()) {
               fails.push(("RelNoIndexType_contents".to_string(), format!("total {:?} want {:?}; delta {:?} want {:?}", got_t, mt, got_d, md)));
            }
            if cgot_t != s(mt.clone()) || cgot_d != s(md.clone()) || cgot_t_all != s(mt.clone()) {
               fails.push(("CRelNoIndex_contents".to_string(), format!("total {:?} want {:?}; delta {:?} want {:?}", cgot_t, mt, cgot_d, md)));
            }
            if !new.is_empty() {
               fails.push(("RelNoIndexType_new_not_empty_after_merge".to_string(), String::new()));
            }
         }
         fails
      }));
      match r {
         Ok(f) =>
            for (a, b) in f {
               st.fail(a, b)
            },
         Err(e) => st.fail("no_index_panic".into(), panic_message(e)),
      }
   }
}

// ---- combined view
fn combined_checks(rng: &mut Rng, count: u64, st: &mut Stats) {
   for _ in 0..count {
      st.sequences += 1;
      let mut a: RelIndexType1<K, V> = Default::default();
      let mut b: RelIndexType1<K, V> = Default::default();
      let mut m = Model::new();
      for _ in 0..rng.below(30) {
         let (k, v) = (rng.below(5) as u8, rng.below(1000) as u32);
         if rng.chance(1, 2) {
            Idx::insert(&mut a, k, v)
         } else {
            Idx::insert(&mut b, k, v)
         }
         m.entry(k).or_default().push(v);
      }
      let c = RelIndexCombined::new(&a, &b);
      for k in 0..6u8 {
         let mut got: Vec<u32> = RelIndexRead::index_get(&c, &(k,)).into_iter().flatten().map(|x| x.0).collect();
         got.sort();
         let mut want = m.get(&k).cloned().unwrap_or_default();
         want.sort();
         if got != want {
            st.fail("RelIndexCombined_lookup".into(), format!("key {} got {:?} want {:?}", k, got, want));
         }
      }
      let mut all: Vec<(u8, u32)> = RelIndexReadAll::iter_all(&c).flat_map(|(k, vs)| vs.map(move |v| (k.0, v.0))).collect();
      all.sort();
      let mut want_all: Vec<(u8, u32)> = m.iter().flat_map(|(k, vs)| vs.iter().map(move |v| (*k, *v))).collect();
      want_all.sort();
      if all != want_all {
         st.fail("RelIndexCombined_iteration".into(), format!("got {:?} want {:?}", all, want_all));
      }
      if RelIndexRead::is_empty(&c) && !want_all.is_empty() {
         st.fail("RelIndexCombined_is_empty_on_nonempty".into(), String::new());
      }
   }
}

// ---- concurrent inserts: unique values make the history unambiguous
fn concurrent_checks(rng: &mut Rng, rounds: u64, st: &mut Stats, noperturb: bool, maxthreads: usize) -> (u64, u64) {
   let mut total_inserts = 0u64;
   let mut races = 0u64;
   for round in 0..rounds {
      let threads = [2usize, 3, 4, 8, 16, 32][rng.below(6)].min(maxthreads);
      let per = if maxthreads < 8 { 5 } else { 20 + rng.below(200) };
      let hot = 1 + rng.below(4) as u8;
      let perturb = rng.next() | 1;
      st.sequences += 1;
      let r = catch_unwind(AssertUnwindSafe(|| {
         let mut fails: Vec<(String, String)> = vec![];
         ascent::verif::perturb_arm(if round % 2 == 0 && !noperturb { perturb } else { 0 });
         let pool = rayon::ThreadPoolBuilder::new().num_threads(threads).build().unwrap();
         let ri: CRelIndex<K, V> = Default::default();
         let li: CLatIndex<K, V> = Default::default();
         let fi: CRelFullIndex<K, V> = Default::default();
         // the index may be created in another context than the pool that fills it (generated code creates indices wherever the
         // program object is constructed): the filling pool, the global pool, or a smaller pool
         let ni: CRelNoIndex<u32> = match round % 4 {
            0 => pool.install(Default::default),
            1 => Default::default(),
            2 => rayon::ThreadPoolBuilder::new().num_threads(1).build().unwrap().install(Default::default),
            _ => rayon::ThreadPoolBuilder::new().num_threads(2).build().unwrap().install(Default::default),
         };
         let winners: Vec<Vec<u8>> = pool.install(|| {
            (0..threads)
               .into_par_iter()
               .map(|t| {
                  let mut won = vec![];
                  let mut x = (t as u64 + 1).wrapping_mul(0x9E3779B97F4A7C15);
                  for i in 0..per {
                     x ^= x << 13;
                     x ^= x >> 7;
                     x ^= x << 17;
                     let k = if x % 4 != 0 { (x >> 8) as u8 % hot } else { 64 + ((x >> 8) as u8 % 64) };
                     let v = ((t as u32) << 20) | i as u32;
                     CRelIndexWrite::index_insert(&ri, (k,), (v,));
                     CRelIndexWrite::index_insert(&li, (k,), (v,));
                     CRelIndexWrite::index_insert(&li, (k,), (v,)); // set semantics: second insert is a no-op
                     CRelIndexWrite::index_insert(&ni, (), v);
                     if CRelFullIndexWrite::insert_if_not_present(&fi, &(k,), (v,)) {
                        won.push(k);
                     }
                  }
                  won
               })
               .collect()
         });
         ascent::verif::perturb_arm(0);
         // expected
         let mut want: BTreeMap<u8, BTreeSet<u32>> = BTreeMap::new();
         for t in 0..threads {
            let mut x = (t as u64 + 1).wrapping_mul(0x9E3779B97F4A7C15);
            for i in 0..per {
               x ^= x << 13;
               x ^= x >> 7;
               x ^= x << 17;
               let k = if x % 4 != 0 { (x >> 8) as u8 % hot } else { 64 + ((x >> 8) as u8 % 64) };
               want.entry(k).or_default().insert(((t as u32) << 20) | i as u32);
            }
         }
         let (mut ri, mut li, mut fi, mut ni) = (ri, li, fi, ni);
         ri.freeze();
         li.freeze();
         fi.freeze();
         ni.freeze();
         for (k, vs) in &want {
            let got: Vec<u32> = RelIndexRead::index_get(&ri, &(*k,)).into_iter().flatten().map(|x| x.0).collect();
            let gs: BTreeSet<u32> = got.iter().cloned().collect();
            if gs != *vs || got.len() != vs.len() {
               fails.push(("CRelIndex_concurrent_inserts".into(), format!("threads={} key {}: {} values retained of {} ({} distinct)", threads, k, got.len(), vs.len(), gs.len())));
            }
            let gotl: Vec<u32> = RelIndexRead::index_get(&li, &(*k,)).into_iter().flatten().map(|x| x.0).collect();
            let gls: BTreeSet<u32> = gotl.iter().cloned().collect();
            if gls != *vs || gotl.len() != vs.len() {
               fails.push(("CLatIndex_concurrent_inserts".into(), format!("threads={} key {}: {} values of {}", threads, k, gotl.len(), vs.len())));
            }
            let nw = winners.iter().flatten().filter(|w| *w == k).count();
            if nw != 1 {
               fails.push(("CRelFullIndex_insert_if_absent_winners".into(), format!("threads={} key {}: {} winners", threads, k, nw)));
            }
            let fv: Vec<u32> = RelIndexRead::index_get(&fi, &(*k,)).into_iter().flatten().map(|x| x.0).collect();
            if fv.len() != 1 || !vs.contains(&fv[0]) {
               fails.push(("CRelFullIndex_concurrent_value".into(), format!("key {} holds {:?}", k, fv)));
            }
         }
         let allk: BTreeSet<u8> = RelIndexReadAll::iter_all(&ri).map(|(k, _)| k.0).collect();
         if allk != want.keys().cloned().collect() {
            fails.push(("CRelIndex_concurrent_keys".into(), format!("{:?}", allk)));
         }
         let nall: Vec<u32> = RelIndexRead::index_get(&ni, &()).into_iter().flatten().cloned().collect();
         let nset: BTreeSet<u32> = nall.iter().cloned().collect();
         let wantn: BTreeSet<u32> = want.values().flatten().cloned().collect();
         if nset != wantn || nall.len() != wantn.len() {
            fails.push(("CRelNoIndex_concurrent_inserts".into(), format!("threads={} retained {} of {}", threads, nall.len(), wantn.len())));
         }
         // fresh-key races: after a barrier every worker walks the SAME sequence of fresh keys, so that all of them reach
         // each absent key at about the same time; exactly one may win each key
         let fresh: CRelFullIndex<K, V> = Default::default();
         let nfresh = if maxthreads < 8 { 6u8 } else { 200u8 };
         ascent::verif::perturb_arm(if round % 2 == 0 && !noperturb { perturb.rotate_left(9) | 1 } else { 0 });
         let barrier = std::sync::Barrier::new(threads);
         let wins: Vec<Vec<u8>> = std::thread::scope(|sc| {
            let hs: Vec<_> = (0..threads)
               .map(|t| {
                  let (fresh, barrier) = (&fresh, &barrier);
                  sc.spawn(move || {
                     let mut won = vec![];
                     barrier.wait();
                     for k in 0..nfresh {
                        if CRelFullIndexWrite::insert_if_not_present(fresh, &(k,), (t as u32,)) {
                           won.push(k);
                        }
                     }
                     won
                  })
               })
               .collect();
            hs.into_iter().map(|h| h.join().unwrap()).collect()
         });
         ascent::verif::perturb_arm(0);
         for k in 0..nfresh {
            let nw = wins.iter().flatten().filter(|w| **w == k).count();
            if nw != 1 {
               fails.push(("CRelFullIndex_insert_if_absent_winners".into(), format!("fresh-key race, threads={} key {}: {} winners", threads, k, nw)));
               break;
            }
         }
         let lost: u64 = winners.iter().map(|w| w.len() as u64).sum();
         (fails, (threads * per) as u64 + (threads as u64 * nfresh as u64), (threads * per) as u64 - lost + (threads as u64 - 1) * nfresh as u64)
      }));
      match r {
         Ok((f, n, lostraces)) => {
            total_inserts += n * 4;
            races += lostraces;
            for (a, b) in f {
               st.fail(a, b)
            }
         },
         Err(e) => st.fail("concurrent_panic".into(), panic_message(e)),
      }
   }
   (total_inserts, races)
}

fn main() {
   quiet_panics();
   let seed = arg("seed", 1);
   let len = arg("len", 5) as usize;
   let nrandom = arg("random", 300);
   let rounds = arg("rounds", 60);
   let conc_only = arg("conc_only", 0) == 1;
   let noperturb = arg("noperturb", 0) == 1;
   let maxthreads = arg("maxthreads", 32) as usize;
   let mut rng = Rng::new(seed);
   let mut st = Stats { sequences: 0, sequences_ge2: 0, ops: 0, merges_swapped: 0, merges_unswapped: 0, viol: vec![] };
   let mut ex = 0;
   let miri = arg("miri", 0) == 1;
   if miri {
      // a handful of short sequences per concurrent type: enough to reach every unsafe block (_yield_write_shard,
      // data_ptr() reads of frozen shards, the parallel shard iterators) without running for hours
      let seqs: [&[Op]; 3] = [
         &[Op::Ins(0, 1), Op::Ins(1, 2), Op::Merge, Op::Ins(0, 2), Op::Merge],
         &[Op::Merge, Op::Ins(1, 1), Op::Ins(1, 1), Op::Merge, Op::Merge],
         &[Op::Ins(0, 1), Op::Merge, Op::Ins(0, 1), Op::Ins(1, 3), Op::Merge],
      ];
      for ops in seqs {
         run_sequence::<CRelIndex<K, V>>(ops, &[0, 1, 2], &mut st);
         run_sequence::<CLatIndex<K, V>>(ops, &[0, 1, 2], &mut st);
         run_sequence::<CRelFullIndex<K, V>>(ops, &[0, 1, 2], &mut st);
         run_sequence::<RelIndexType1<K, V>>(ops, &[0, 1, 2], &mut st);
      }
      no_index_checks(&mut rng, 1, &mut st);
      combined_checks(&mut rng, 1, &mut st);
   } else if !conc_only {
      ex += exhaustive::<RelIndexType1<K, V>>(len, &mut st);
      ex += exhaustive::<LatticeIndexType<K, V>>(len, &mut st);
      ex += exhaustive::<RelFullIndexType<K, V>>(len, &mut st);
      ex += exhaustive::<CRelIndex<K, V>>(len.min(4), &mut st);
      ex += exhaustive::<CLatIndex<K, V>>(len.min(4), &mut st);
      ex += exhaustive::<CRelFullIndex<K, V>>(len.min(4), &mut st);
      random::<RelIndexType1<K, V>>(&mut rng, nrandom, &mut st);
      random::<LatticeIndexType<K, V>>(&mut rng, nrandom, &mut st);
      random::<RelFullIndexType<K, V>>(&mut rng, nrandom, &mut st);
      random::<CRelIndex<K, V>>(&mut rng, nrandom / 3 + 1, &mut st);
      random::<CLatIndex<K, V>>(&mut rng, nrandom / 3 + 1, &mut st);
      random::<CRelFullIndex<K, V>>(&mut rng, nrandom / 3 + 1, &mut st);
      no_index_checks(&mut rng, nrandom, &mut st);
      combined_checks(&mut rng, nrandom, &mut st);
   }
   let (cins, races) = concurrent_checks(&mut rng, rounds, &mut st, noperturb, maxthreads);
   println!(
      "{{\"sequences\":{},\"sequences_with_2_or_more_operations\":{},\"exhaustive_sequences\":{},\"operations\":{},\"merges_delta_larger\":{},\"merges_total_larger_or_equal\":{},\"concurrent_rounds\":{},\"concurrent_inserts\":{},\"insert_if_absent_lost_races\":{},\"violations\":{}}}",
      st.sequences, st.sequences_ge2, ex, st.ops, st.merges_swapped, st.merges_unswapped, rounds, cins, races, st.viol.len()
   );
   for (l, w) in &st.viol {
      println!("{{\"violation\":true,\"what\":\"{}\",\"witness\":\"{}\"}}", l, json_escape(w));
   }
   println!("{{\"done\":true}}");
}
