use ascent::lattice::bounded_set::BoundedSet;
use ascent::lattice::constant_propagation::ConstPropagation;
use ascent::lattice::set::Set;
use ascent::Dual;
use std::collections::BTreeSet;

/// canonical, whitespace-free text form of a column value
pub trait VVal: Sized {
   fn vshow(&self) -> String;
   fn vparse(s: &str) -> Self;
}

macro_rules! int_vval {
   ($($t:ty),*) => {$(
      impl VVal for $t {
         fn vshow(&self) -> String { self.to_string() }
         fn vparse(s: &str) -> Self { s.parse::<$t>().unwrap_or_else(|_| panic!("vparse {}: {:?}", stringify!($t), s)) }
      }
   )*};
}
int_vval!(i8, i16, i32, i64, i128, u8, u16, u32, u64, usize, isize);

impl VVal for bool {
   fn vshow(&self) -> String { if *self { "true".into() } else { "false".into() } }
   fn vparse(s: &str) -> Self { s == "true" }
}

impl VVal for String {
   fn vshow(&self) -> String { format!("\"{}\"", self) }
   fn vparse(s: &str) -> Self { s.trim_matches('"').to_string() }
}

impl VVal for &'static str {
   fn vshow(&self) -> String { format!("\"{}\"", self) }
   fn vparse(s: &str) -> Self { Box::leak(s.trim_matches('"').to_string().into_boxed_str()) }
}

/// splits `s` on `sep` at nesting depth 0 of () and {}
pub fn split_top(s: &str, sep: char) -> Vec<&str> {
   let mut res = vec![];
   if s.is_empty() {
      return res;
   }
   let mut depth = 0;
   let mut start = 0;
   for (i, c) in s.char_indices() {
      match c {
         '(' | '{' => depth += 1,
         ')' | '}' => depth -= 1,
         c if c == sep && depth == 0 => {
            res.push(&s[start..i]);
            start = i + 1;
         },
         _ => {},
      }
   }
   res.push(&s[start..]);
   res
}

fn inner<'a>(s: &'a str, prefix: &str, close: char) -> &'a str {
   assert!(s.starts_with(prefix) && s.ends_with(close), "vparse: bad compound {:?} (expected {}..{})", s, prefix, close);
   &s[prefix.len()..s.len() - 1]
}

impl<T: VVal> VVal for Option<T> {
   fn vshow(&self) -> String {
      match self {
         None => "None".into(),
         Some(x) => format!("Some({})", x.vshow()),
      }
   }
   fn vparse(s: &str) -> Self { if s == "None" { None } else { Some(T::vparse(inner(s, "Some(", ')'))) } }
}

impl<T: VVal> VVal for Dual<T> {
   fn vshow(&self) -> String { format!("Dual({})", self.0.vshow()) }
   fn vparse(s: &str) -> Self { Dual(T::vparse(inner(s, "Dual(", ')'))) }
}

impl<T: VVal> VVal for std::cmp::Reverse<T> {
   fn vshow(&self) -> String { format!("Rev({})", self.0.vshow()) }
   fn vparse(s: &str) -> Self { std::cmp::Reverse(T::vparse(inner(s, "Rev(", ')'))) }
}

impl<T: VVal + Ord + std::hash::Hash> VVal for Set<T> {
   fn vshow(&self) -> String { format!("{{{}}}", self.0.iter().map(|x| x.vshow()).collect::<Vec<_>>().join(",")) }
   fn vparse(s: &str) -> Self { Set(split_top(inner(s, "{", '}'), ',').into_iter().map(T::vparse).collect::<BTreeSet<T>>()) }
}

impl<const N: usize> VVal for BoundedSet<N, u8> {
   fn vshow(&self) -> String {
      if self.is_top() {
         "TOP".into()
      } else {
         let items: Vec<String> = (0..=255u8).filter(|i| self.contains(i)).map(|i| i.to_string()).collect();
         format!("{{{}}}", items.join(","))
      }
   }
   fn vparse(s: &str) -> Self {
      if s == "TOP" {
         Self::TOP
      } else {
         Self::from_set(<Set<u8>>::vparse(s))
      }
   }
}

impl<T: VVal> VVal for ConstPropagation<T> {
   fn vshow(&self) -> String {
      match self {
         ConstPropagation::Bottom => "Bot".into(),
         ConstPropagation::Constant(x) => format!("Const({})", x.vshow()),
         ConstPropagation::Top => "Top".into(),
      }
   }
   fn vparse(s: &str) -> Self {
      match s {
         "Bot" => ConstPropagation::Bottom,
         "Top" => ConstPropagation::Top,
         _ => ConstPropagation::Constant(T::vparse(inner(s, "Const(", ')'))),
      }
   }
}

impl<A: VVal, B: VVal> VVal for (A, B) {
   fn vshow(&self) -> String { format!("({};{})", self.0.vshow(), self.1.vshow()) }
   fn vparse(s: &str) -> Self {
      let parts = split_top(inner(s, "(", ')'), ';');
      assert_eq!(parts.len(), 2, "vparse tuple2 {:?}", s);
      (A::vparse(parts[0]), B::vparse(parts[1]))
   }
}

impl<A: VVal, B: VVal, C: VVal> VVal for (A, B, C) {
   fn vshow(&self) -> String { format!("({};{};{})", self.0.vshow(), self.1.vshow(), self.2.vshow()) }
   fn vparse(s: &str) -> Self {
      let parts = split_top(inner(s, "(", ')'), ';');
      assert_eq!(parts.len(), 3, "vparse tuple3 {:?}", s);
      (A::vparse(parts[0]), B::vparse(parts[1]), C::vparse(parts[2]))
   }
}

impl<T: VVal> VVal for std::sync::Arc<T> {
   fn vshow(&self) -> String { (**self).vshow() }
   fn vparse(s: &str) -> Self { std::sync::Arc::new(T::vparse(s)) }
}
impl<T: VVal> VVal for std::rc::Rc<T> {
   fn vshow(&self) -> String { (**self).vshow() }
   fn vparse(s: &str) -> Self { std::rc::Rc::new(T::vparse(s)) }
}
impl<T: VVal> VVal for Box<T> {
   fn vshow(&self) -> String { (**self).vshow() }
   fn vparse(s: &str) -> Self { Box::new(T::vparse(s)) }
}

/// A max-lattice over i32 whose operations (join, meet, clone) pass through a perturbation point, like an expensive user-defined
/// lattice would: it widens every window between reading a lattice value and writing it back.
#[derive(PartialEq, Eq, Hash, PartialOrd, Ord, Debug)]
pub struct SlowMax(pub i32);

impl Clone for SlowMax {
   fn clone(&self) -> Self {
      ascent::verif::perturb(ascent::verif::site::BYODS_INSERT + 1);
      SlowMax(self.0)
   }
}

impl ascent::Lattice for SlowMax {
   fn meet_mut(&mut self, other: Self) -> bool {
      ascent::verif::perturb(ascent::verif::site::BYODS_INSERT + 2);
      let changed = other.0 < self.0;
      if changed {
         self.0 = other.0;
      }
      changed
   }
   fn join_mut(&mut self, other: Self) -> bool {
      ascent::verif::perturb(ascent::verif::site::BYODS_INSERT + 2);
      let changed = other.0 > self.0;
      if changed {
         self.0 = other.0;
      }
      changed
   }
}

impl VVal for SlowMax {
   fn vshow(&self) -> String { self.0.to_string() }
   fn vparse(s: &str) -> Self { SlowMax(s.parse().unwrap()) }
}
