//! vmon: the runtime side of the monitors. Every generated harness crate links this.
//!
//! - `VVal`: canonical text form of every column type used by generated programs
//! - `Prog`: uniform driver interface implemented (by generated code) for every program variant
//! - `run_job`: executes one job (input, steps, pool / perturbation / repetition configuration) and
//!   writes what it observed as text lines; never decides anything itself except "same as rep 0".
pub mod val;
pub mod job;
pub mod aggs;

pub use job::{main_with, run_job, Dump, Job, Prog, RawInput, Runner};
pub use val::VVal;
