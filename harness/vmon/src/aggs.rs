//! user-defined aggregators used by generated programs (the reference has its own definitions)

/// second highest *distinct* value, if any
pub fn second_highest<'a, N: 'a>(inp: impl Iterator<Item = (&'a N,)>) -> impl Iterator<Item = N>
where N: Ord + Clone {
   let mut v: Vec<N> = inp.map(|t| t.0.clone()).collect();
   v.sort();
   v.dedup();
   let n = v.len();
   (if n >= 2 { Some(v[n - 2].clone()) } else { None }).into_iter()
}

/// the (up to) three smallest distinct values: a rule using it fires once per returned value
pub fn lowest3<'a, N: 'a>(inp: impl Iterator<Item = (&'a N,)>) -> impl Iterator<Item = N>
where N: Ord + Clone {
   let mut v: Vec<N> = inp.map(|t| t.0.clone()).collect();
   v.sort();
   v.dedup();
   v.truncate(3);
   v.into_iter()
}

/// never yields: a rule using it never fires
pub fn nothing<'a, N: 'a>(inp: impl Iterator<Item = (&'a N,)>) -> impl Iterator<Item = N>
where N: Ord + Clone {
   inp.for_each(drop);
   std::iter::empty()
}

/// sum of a pair column product: two bound columns
pub fn sum_prod<'a>(inp: impl Iterator<Item = (&'a i32, &'a i32)>) -> impl Iterator<Item = i32> {
   std::iter::once(inp.map(|(a, b)| a * b).sum::<i32>())
}
