use std::collections::{BTreeMap, HashMap, HashSet};
use std::io::{BufRead, Write};
use std::panic::{catch_unwind, AssertUnwindSafe};
use std::sync::atomic::{AtomicBool, Ordering};
use std::sync::{Arc, Mutex};
use std::time::Duration;

use ascent::rayon;
use ascent::verif;

/// rows of one relation in vector order, each row tab-joined
pub type RelDump = Vec<String>;

#[derive(Default, Clone, Debug)]
pub struct Dump {
   pub rels: Vec<(String, RelDump)>,
}

impl Dump {
   pub fn new() -> Self { Self::default() }
   pub fn rel(&mut self, name: &str, rows: impl Iterator<Item = Vec<String>>) {
      self.rels.push((name.to_string(), rows.map(|r| r.join("\t")).collect()));
   }
   /// canonical form: relation name -> sorted rows (with multiplicity)
   pub fn canon(&self) -> BTreeMap<String, Vec<String>> {
      self
         .rels
         .iter()
         .map(|(n, rows)| {
            let mut r = rows.clone();
            r.sort();
            (n.clone(), r)
         })
         .collect()
   }
   pub fn order_hash(&self) -> u64 {
      use std::hash::{Hash, Hasher};
      let mut h = std::collections::hash_map::DefaultHasher::new();
      for (n, rows) in &self.rels {
         n.hash(&mut h);
         rows.hash(&mut h);
      }
      h.finish()
   }
   pub fn write(&self, out: &mut dyn Write) {
      for (n, rows) in &self.rels {
         writeln!(out, "REL {} {}", n, rows.len()).unwrap();
         for r in rows {
            writeln!(out, "{}", r).unwrap();
         }
      }
   }
}

#[derive(Default, Clone, Debug)]
pub struct RawInput {
   pub rows: Vec<(String, Vec<String>)>,
}
impl RawInput {
   pub fn push(&mut self, rel: &str, row: &[&str]) { self.rows.push((rel.to_string(), row.iter().map(|s| s.to_string()).collect())); }
   pub fn rows_of<'a>(&'a self, rel: &'a str) -> impl Iterator<Item = &'a Vec<String>> + 'a {
      self.rows.iter().filter(move |(r, _)| r == rel).map(|(_, row)| row)
   }
}

/// Implemented by generated code for every program variant.
pub trait Prog: Sized {
   fn new() -> Self;
   /// push one input row into relation `rel`
   fn load(&mut self, rel: &str, row: &[&str]);
   fn run(&mut self);
   /// None: the variant was not compiled with generate_run_timeout
   fn run_timeout(&mut self, _timeout: Duration) -> Option<bool> { None }
   fn dump(&self, out: &mut Dump);
   fn scc_summary(&self) -> String { String::new() }
   fn sizes_summary(&self) -> String { String::new() }
}

#[derive(Clone, Debug)]
pub enum Step {
   Run,
   /// run_timeout(k virtual ticks)
   Timeout(u64),
   /// run to completion under the armed virtual clock, report number of readings
   Measure,
   Add(Vec<(String, Vec<String>)>),
   /// switch the pool used by subsequent steps (0 = ambient/global)
   Pool(usize),
}

#[derive(Clone, Debug, Default)]
pub struct Job {
   pub id: String,
   pub prog: String,
   pub params: HashMap<String, String>,
   pub input: Vec<(String, Vec<String>)>,
   pub steps: Vec<Step>,
}

impl Job {
   pub fn param_usize(&self, k: &str, default: usize) -> usize {
      self.params.get(k).map(|v| v.parse().unwrap()).unwrap_or(default)
   }
}

pub type Runner = fn(&Job, &mut dyn Write);

static PANIC_MSG: Mutex<Option<String>> = Mutex::new(None);

pub fn install_panic_hook() {
   std::panic::set_hook(Box::new(|info| {
      let loc = info.location().map(|l| format!("{}:{}", l.file(), l.line())).unwrap_or_default();
      let msg = if let Some(s) = info.payload().downcast_ref::<&str>() {
         s.to_string()
      } else if let Some(s) = info.payload().downcast_ref::<String>() {
         s.clone()
      } else {
         "<non-string panic>".to_string()
      };
      let mut g = PANIC_MSG.lock().unwrap_or_else(|e| e.into_inner());
      if g.is_none() {
         *g = Some(format!("{} @ {}", msg.replace('\n', " "), loc));
      }
   }));
}

fn take_panic_msg() -> String {
   PANIC_MSG.lock().unwrap_or_else(|e| e.into_inner()).take().unwrap_or_else(|| "<unknown panic>".into())
}

struct StepObs {
   kind: String,
   dump: Dump,
   scc: String,
   extra: String,
}

/// one execution of the job's step list on a fresh program value
fn execute<P: Prog>(job: &Job, construct_pool: usize, run_pool: usize) -> Vec<StepObs> {
   let mut obs = vec![];
   let mut p = in_pool_nosend(construct_pool, P::new);
   for (rel, row) in &job.input {
      let r: Vec<&str> = row.iter().map(|s| s.as_str()).collect();
      p.load(rel, &r);
   }
   let mut pool = run_pool;
   for (si, step) in job.steps.iter().enumerate() {
      match step {
         Step::Pool(n) => pool = *n,
         Step::Add(rows) => {
            for (rel, row) in rows {
               let r: Vec<&str> = row.iter().map(|s| s.as_str()).collect();
               p.load(rel, &r);
            }
         },
         Step::Run => {
            in_pool_nosend(pool, || p.run());
            let mut d = Dump::new();
            p.dump(&mut d);
            obs.push(StepObs { kind: format!("{} run", si), dump: d, scc: p.scc_summary(), extra: p.sizes_summary() });
         },
         Step::Timeout(k) => {
            verif::clock_reset();
            verif::clock_arm();
            let r = in_pool_nosend(pool, || p.run_timeout(Duration::from_nanos(*k)));
            verif::clock_disarm();
            let ticks = verif::clock_ticks();
            let mut d = Dump::new();
            p.dump(&mut d);
            let r = match r {
               None => "unsupported".to_string(),
               Some(b) => b.to_string(),
            };
            obs.push(StepObs {
               kind: format!("{} timeout k={} ret={} ticks={}", si, k, r, ticks),
               dump: d,
               scc: p.scc_summary(),
               extra: p.sizes_summary(),
            });
         },
         Step::Measure => {
            verif::clock_reset();
            verif::clock_arm();
            let r = in_pool_nosend(pool, || p.run_timeout(Duration::from_nanos(u64::MAX / 4)));
            verif::clock_disarm();
            let ticks = verif::clock_ticks();
            let mut d = Dump::new();
            p.dump(&mut d);
            let r = match r {
               None => "unsupported".to_string(),
               Some(b) => b.to_string(),
            };
            obs.push(StepObs {
               kind: format!("{} measure ret={} ticks={}", si, r, ticks),
               dump: d,
               scc: p.scc_summary(),
               extra: p.sizes_summary(),
            });
         },
      }
   }
   obs
}

/// like in_pool but for closures that are not Send (serial programs with Rc etc. never use a pool != 0 ... but
/// to keep one code path we require the pool path only when n != 0 and run it through a scoped trampoline)
fn in_pool_nosend<R>(n: usize, f: impl FnOnce() -> R) -> R {
   if n == 0 {
      return f();
   }
   let outer = OUTER_POOL.with(|c| c.get());
   // SAFETY-free trampoline: run f on this thread if it is already a worker of a pool of the right size,
   // otherwise build a pool and install. `install` needs Send; wrap in AssertSend: the closure is executed
   // exactly once while this thread blocks, so no concurrent access to captured state happens.
   struct AssertSend<T>(T);
   unsafe impl<T> Send for AssertSend<T> {}
   let pool = rayon::ThreadPoolBuilder::new().num_threads(n).build().expect("pool");
   let w = AssertSend(f);
   let r = if outer > 0 {
      // nested install: the inner pool is entered from inside a worker of an outer pool
      let outer_pool = rayon::ThreadPoolBuilder::new().num_threads(outer).build().expect("outer pool");
      outer_pool.install(move || {
         pool.install(move || {
            let w = w;
            AssertSend((w.0)())
         })
      })
   } else {
      pool.install(move || {
         let w = w;
         AssertSend((w.0)())
      })
   };
   r.0
}

thread_local! {
   static OUTER_POOL: std::cell::Cell<usize> = const { std::cell::Cell::new(0) };
}

fn compact_scc(s: &str) -> String {
   // "scc 0: iterations: 3, time: ..." -> "0:3"
   let mut res = vec![];
   for line in s.lines() {
      if let Some(rest) = line.strip_prefix("scc ") {
         let mut it = rest.split(": iterations: ");
         if let (Some(i), Some(r)) = (it.next(), it.next()) {
            let iters = r.split(',').next().unwrap_or("");
            res.push(format!("{}:{}", i, iters));
         }
      }
   }
   res.join(",")
}

pub fn run_job<P: Prog>(job: &Job, out: &mut dyn Write) {
   let reps = job.param_usize("rep", 1);
   let pool = job.param_usize("pool", 0);
   let cpool = job.param_usize("cpool", pool);
   let perturb = job.params.get("perturb").map(|v| v.parse::<u64>().unwrap()).unwrap_or(0);
   let spin = job.param_usize("spin", 0);
   let fulldump = job.param_usize("fulldump", 0) == 1;
   OUTER_POOL.with(|c| c.set(job.param_usize("outer", 0)));

   let stop = Arc::new(AtomicBool::new(false));
   let spinners: Vec<_> = (0..spin)
      .map(|_| {
         let stop = stop.clone();
         std::thread::spawn(move || {
            let mut x = 1u64;
            while !stop.load(Ordering::Relaxed) {
               for _ in 0..10_000 {
                  x = x.wrapping_mul(6364136223846793005).wrapping_add(1442695040888963407);
               }
               std::hint::black_box(x);
            }
         })
      })
      .collect();

   verif::reset_counters();
   let mut first: Option<Vec<BTreeMap<String, Vec<String>>>> = None;
   let mut orders: HashSet<u64> = HashSet::new();
   let mut ndiff = 0;
   for rep in 0..reps {
      if perturb != 0 {
         verif::perturb_arm(perturb.wrapping_mul(0x9E3779B97F4A7C15).wrapping_add(rep as u64) | 1);
      }
      let res = catch_unwind(AssertUnwindSafe(|| execute::<P>(job, cpool, pool)));
      verif::perturb_arm(0);
      verif::clock_disarm();
      match res {
         Err(_) => {
            writeln!(out, "PANIC rep={} {}", rep, take_panic_msg()).unwrap();
            // a panic may leave locks poisoned inside the program value only; it was dropped. continue.
         },
         Ok(obs) => {
            let canon: Vec<_> = obs.iter().map(|o| o.dump.canon()).collect();
            let mut oh = 0u64;
            for o in &obs {
               oh = oh.rotate_left(7) ^ o.dump.order_hash();
            }
            orders.insert(oh);
            let same = first.as_ref().map(|f| *f == canon).unwrap_or(false);
            if first.is_none() || !same || fulldump {
               if first.is_some() && !same {
                  ndiff += 1;
               }
               writeln!(out, "REP {}", rep).unwrap();
               for o in &obs {
                  writeln!(out, "STEP {}", o.kind).unwrap();
                  writeln!(out, "SCC {}", compact_scc(&o.scc)).unwrap();
                  let sizes: Vec<String> = o.extra.lines().map(|l| l.replace(" size: ", "=")).collect();
                  writeln!(out, "SIZES {}", sizes.join(",")).unwrap();
                  o.dump.write(out);
               }
               writeln!(out, "ENDREP").unwrap();
            }
            if first.is_none() {
               first = Some(canon);
            }
         },
      }
      // progress marker for the driver's watchdog: a long job is alive as long as repetitions complete
      writeln!(out, "TICK {}", rep).unwrap();
      let _ = out.flush();
   }
   stop.store(true, Ordering::Relaxed);
   for s in spinners {
      let _ = s.join();
   }
   let c = verif::counters();
   let h = verif::site_hits();
   writeln!(
      out,
      "STATS reps={} repdiffs={} orders={} counters={} sites={}",
      reps,
      ndiff,
      orders.len(),
      c.iter().map(|x| x.to_string()).collect::<Vec<_>>().join(","),
      h.iter().map(|x| x.to_string()).collect::<Vec<_>>().join(",")
   )
   .unwrap();
}

pub fn parse_jobs(r: impl BufRead) -> Vec<Job> {
   let mut jobs = vec![];
   let mut cur: Option<Job> = None;
   let mut adding: Option<Vec<(String, Vec<String>)>> = None;
   fn row(rest: &str) -> (String, Vec<String>) {
      let mut it = rest.split('\t');
      let rel = it.next().unwrap().to_string();
      (rel, it.map(|s| s.to_string()).collect())
   }
   for line in r.lines() {
      let line = line.unwrap();
      if line.is_empty() {
         continue;
      }
      let (tag, rest) = line.split_once(' ').unwrap_or((&line, ""));
      match tag {
         "JOB" => {
            let mut it = rest.split(' ');
            let id = it.next().unwrap().to_string();
            let prog = it.next().unwrap().to_string();
            let params = it.filter(|s| !s.is_empty()).map(|kv| {
               let (k, v) = kv.split_once('=').unwrap();
               (k.to_string(), v.to_string())
            });
            cur = Some(Job { id, prog, params: params.collect(), ..Default::default() });
         },
         "I" => cur.as_mut().unwrap().input.push(row(rest)),
         "A" => adding.as_mut().expect("A outside add").push(row(rest)),
         "S" => {
            let j = cur.as_mut().unwrap();
            if let Some(a) = adding.take() {
               j.steps.push(Step::Add(a));
            }
            let mut it = rest.split(' ');
            match it.next().unwrap() {
               "run" => j.steps.push(Step::Run),
               "measure" => j.steps.push(Step::Measure),
               "timeout" => j.steps.push(Step::Timeout(it.next().unwrap().parse().unwrap())),
               "pool" => j.steps.push(Step::Pool(it.next().unwrap().parse().unwrap())),
               "add" => adding = Some(vec![]),
               x => panic!("unknown step {}", x),
            }
         },
         "END" => {
            let mut j = cur.take().unwrap();
            if let Some(a) = adding.take() {
               j.steps.push(Step::Add(a));
            }
            jobs.push(j);
         },
         x => panic!("unknown tag {}", x),
      }
   }
   jobs
}

/// entry point of every generated harness binary: `bin <jobs-file> <out-file> [skip-count]`
pub fn main_with(table: &[(&str, Runner)]) {
   let args: Vec<String> = std::env::args().collect();
   if args.len() < 3 {
      eprintln!("usage: {} <jobs> <out> [first-job-index]", args[0]);
      std::process::exit(2);
   }
   let skip: usize = args.get(3).map(|s| s.parse().unwrap()).unwrap_or(0);
   install_panic_hook();
   let jobs = parse_jobs(std::io::BufReader::new(std::fs::File::open(&args[1]).expect("jobs file")));
   let map: HashMap<&str, Runner> = table.iter().cloned().collect();
   let f = std::fs::OpenOptions::new().create(true).append(true).open(&args[2]).expect("out file");
   let mut out = std::io::BufWriter::new(f);
   let mut i = skip;
   while i < jobs.len() {
      let job = &jobs[i];
      let group = job.params.get("group").cloned();
      let mut j = i + 1;
      if group.is_some() {
         while j < jobs.len() && jobs[j].params.get("group") == group.as_ref() {
            j += 1;
         }
      }
      if group.is_none() || j == i + 1 {
         writeln!(out, "BEGIN {} {}", i, job.id).unwrap();
         out.flush().unwrap();
         match map.get(job.prog.as_str()) {
            None => writeln!(out, "NOPROG {}", job.prog).unwrap(),
            Some(r) => r(job, &mut out),
         }
         writeln!(out, "END {} {}", i, job.id).unwrap();
         out.flush().unwrap();
      } else if job.param_usize("shared_pool", 0) > 0 {
         // all jobs of the group are tasks of ONE rayon pool: every instance's run() executes on a worker of that pool, and a
         // worker that waits for a stolen sub-job of one instance may pick up and run another instance nested on its stack
         writeln!(out, "BEGIN {} {}", i, job.id).unwrap();
         out.flush().unwrap();
         let pool = rayon::ThreadPoolBuilder::new().num_threads(job.param_usize("shared_pool", 0)).build().expect("shared pool");
         let bufs: Vec<Vec<u8>> = pool.install(|| {
            use rayon::prelude::*;
            (i..j)
               .into_par_iter()
               .map(|k| {
                  let job = &jobs[k];
                  let mut buf: Vec<u8> = vec![];
                  match map.get(job.prog.as_str()).cloned() {
                     None => writeln!(buf, "NOPROG {}", job.prog).unwrap(),
                     Some(r) => r(job, &mut buf),
                  }
                  buf
               })
               .collect()
         });
         for (k, buf) in (i..j).zip(bufs) {
            if k != i {
               writeln!(out, "BEGIN {} {}", k, jobs[k].id).unwrap();
            }
            out.write_all(&buf).unwrap();
            writeln!(out, "END {} {}", k, jobs[k].id).unwrap();
         }
         out.flush().unwrap();
      } else {
         // all jobs of the group start together on separate OS threads
         writeln!(out, "BEGIN {} {}", i, job.id).unwrap();
         out.flush().unwrap();
         let barrier = std::sync::Arc::new(std::sync::Barrier::new(j - i));
         let bufs: Vec<Vec<u8>> = std::thread::scope(|sc| {
            let handles: Vec<_> = (i..j)
               .map(|k| {
                  let job = &jobs[k];
                  let runner = map.get(job.prog.as_str()).cloned();
                  let barrier = barrier.clone();
                  sc.spawn(move || {
                     let mut buf: Vec<u8> = vec![];
                     barrier.wait();
                     match runner {
                        None => writeln!(buf, "NOPROG {}", job.prog).unwrap(),
                        Some(r) => r(job, &mut buf),
                     }
                     buf
                  })
               })
               .collect();
            handles.into_iter().map(|h| h.join().unwrap_or_else(|_| b"PANIC rep=0 job thread panicked outside the program\n".to_vec())).collect()
         });
         for (k, buf) in (i..j).zip(bufs) {
            if k != i {
               writeln!(out, "BEGIN {} {}", k, jobs[k].id).unwrap();
            }
            out.write_all(&buf).unwrap();
            writeln!(out, "END {} {}", k, jobs[k].id).unwrap();
         }
         out.flush().unwrap();
      }
      i = j;
   }
   writeln!(out, "ALLDONE").unwrap();
   out.flush().unwrap();
}
