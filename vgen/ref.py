"""Reference evaluator: naive bottom-up evaluation of the stratified least model, in plain Python.

No indices, no deltas, no join reordering: every rule is a nest of loops over whole relations, applied
round-robin until a full pass adds nothing; strata come from an independent relation-level dependency
graph (Ascent stratifies rules).  Aggregates are computed over the set of distinct matching tuples.
Lattice relations are dicts key -> value joined with the reference's own lattice operations (types.py).
"""
from .ast import *
from . import types as T


class NotStratifiable(Exception):
    pass


class RefError(Exception):
    pass


def item_rels(item, pos, neg):
    if isinstance(item, Clause):
        pos.add(item.rel)
    elif isinstance(item, (Neg, Agg)):
        neg.add(item.rel)
    elif isinstance(item, Disj):
        for alt in item.alts:
            for i in alt:
                item_rels(i, pos, neg)


def stratify(prog):
    """returns list of components (lists of relation names) in evaluation order"""
    names = []
    for r in prog.rels:
        if r.name not in names:
            names.append(r.name)
    deps = {n: set() for n in names}      # n depends on m
    negdeps = {n: set() for n in names}
    for rule in prog.rules:
        pos, neg = set(), set()
        for i in rule.body:
            item_rels(i, pos, neg)
        for h in rule.heads:
            deps[h.rel] |= pos | neg
            negdeps[h.rel] |= neg
    # Tarjan
    index, low, onstack, stack, comps = {}, {}, set(), [], []
    counter = [0]

    def sc(v):
        work = [(v, iter(sorted(deps[v])))]
        index[v] = low[v] = counter[0]
        counter[0] += 1
        stack.append(v)
        onstack.add(v)
        while work:
            node, it = work[-1]
            advanced = False
            for w in it:
                if w not in index:
                    index[w] = low[w] = counter[0]
                    counter[0] += 1
                    stack.append(w)
                    onstack.add(w)
                    work.append((w, iter(sorted(deps[w]))))
                    advanced = True
                    break
                elif w in onstack:
                    low[node] = min(low[node], index[w])
            if advanced:
                continue
            work.pop()
            if work:
                parent = work[-1][0]
                low[parent] = min(low[parent], low[node])
            if low[node] == index[node]:
                comp = []
                while True:
                    w = stack.pop()
                    onstack.discard(w)
                    comp.append(w)
                    if w == node:
                        break
                comps.append(comp)
    for n in names:
        if n not in index:
            sc(n)
    # Tarjan emits components in reverse topological order of "depends on" edges => dependencies first
    for comp in comps:
        cs = set(comp)
        for n in comp:
            if negdeps[n] & cs:
                raise NotStratifiable('%s negatively depends on %s' % (n, sorted(negdeps[n] & cs)))
    return comps


class Trace:
    def __init__(self):
        self.rule_new = {}        # rule index -> number of new tuples / lattice improvements it produced
        self.passes = []          # per component: number of productive passes
        self.lat_improvements = {}  # (rel, key) -> number of value changes
        self.derived = 0          # tuples not in the input

    def nontrivial(self, prog):
        """rule with >= 2 body items fired productively AND some component needed >= 2 productive passes"""
        multi = any(n > 0 and len(prog.rules[i].body) >= 2 for i, n in self.rule_new.items())
        return multi and self.derived > 0

    def summary(self):
        return {'derived': self.derived, 'max_passes': max(self.passes or [0]),
                'rules_fired': sum(1 for n in self.rule_new.values() if n > 0),
                'max_lat_improvements': max(self.lat_improvements.values() or [0])}


def rows_of(prog, db, relname):
    r = prog.rel(relname)
    if r.is_lat:
        return [k + (v,) for k, v in db[relname].items()]
    return db[relname]


def match_clause(prog, db, cl, env):
    """yields extended envs for every row of cl.rel matching the clause in env"""
    for row in list(rows_of(prog, db, cl.rel)):
        e = env
        copied = False
        ok = True
        for a, v in zip(cl.args, row):
            if isinstance(a, AWild):
                continue
            if isinstance(a, AVar):
                if a.name in e:
                    if e[a.name] != v:
                        ok = False
                        break
                else:
                    if not copied:
                        e = dict(e)
                        copied = True
                    e[a.name] = v
            elif isinstance(a, AExpr):
                if a.e.ev(e) != v:
                    ok = False
                    break
            elif isinstance(a, APat):
                m, bv = a.match(v)
                if not m:
                    ok = False
                    break
                if not copied:
                    e = dict(e)
                    copied = True
                if a.var in e:
                    raise RefError('pattern var rebinding %s' % a.var)
                e[a.var] = bv
        if not ok:
            continue
        yield from solve_conds(cl.conds, 0, e)


def solve_conds(conds, i, env):
    if i == len(conds):
        yield env
        return
    c = conds[i]
    if isinstance(c, If):
        if c.e.ev(env):
            yield from solve_conds(conds, i + 1, env)
    elif isinstance(c, Let):
        e = dict(env)
        c.bind_into(e, env)
        yield from solve_conds(conds, i + 1, e)
    elif isinstance(c, IfLet):
        ok, bv = c.match(c.e.ev(env))
        if ok:
            e = dict(env)
            e[c.var] = bv
            yield from solve_conds(conds, i + 1, e)
    else:
        raise RefError('bad cond')


def agg_rows(prog, db, ag, env):
    res = []
    for row in rows_of(prog, db, ag.rel):
        ok = True
        local = {}
        for a, v in zip(ag.args, row):
            if isinstance(a, AWild):
                continue
            if isinstance(a, AVar):
                if a.name in ag.bound:
                    if a.name in local:
                        # the same aggregated variable twice: an equality constraint on the two columns
                        if local[a.name] != v:
                            ok = False
                            break
                        continue
                    local[a.name] = v
                elif a.name in env:
                    if env[a.name] != v:
                        ok = False
                        break
                else:
                    raise RefError('free variable %s in agg/neg args' % a.name)
            elif isinstance(a, AExpr):
                if a.e.ev(env) != v:
                    ok = False
                    break
        if ok:
            res.append(tuple(local[b] for b in ag.bound))
    return res


class Budget:
    steps = 0
    limit = 3_000_000


def solve(prog, db, items, i, env):
    Budget.steps += 1
    if Budget.steps > Budget.limit:
        raise RefError('evaluation budget exceeded (%d steps): case too expensive for the naive reference' % Budget.limit)
    if i == len(items):
        yield env
        return
    it = items[i]
    if isinstance(it, Clause):
        for e in match_clause(prog, db, it, env):
            yield from solve(prog, db, items, i + 1, e)
    elif isinstance(it, (If, Let, IfLet)):
        for e in solve_conds([it], 0, env):
            yield from solve(prog, db, items, i + 1, e)
    elif isinstance(it, For):
        for v in it.e.ev(env):
            e = dict(env)
            e[it.var] = v
            yield from solve(prog, db, items, i + 1, e)
    elif isinstance(it, Neg):
        pseudo = Agg(None, 'not', [], it.rel, it.args)
        if not agg_rows(prog, db, pseudo, env):
            yield from solve(prog, db, items, i + 1, env)
    elif isinstance(it, Agg):
        rows = agg_rows(prog, db, it, env)
        for r in it.agg_fn()(rows):
            e = env
            if it.res:
                e = dict(env)
                e[it.res] = it.res_conv(r) if it.res_conv else r
            yield from solve(prog, db, items, i + 1, e)
    elif isinstance(it, Disj):
        for alt in it.alts:
            for e in solve(prog, db, alt, 0, env):
                yield from solve(prog, db, items, i + 1, e)
    else:
        raise RefError('cannot evaluate %r (macro calls must be expanded first)' % it)


def new_db(prog):
    db = {}
    for r in prog.rels:
        db[r.name] = {} if r.is_lat else set()
    return db


def insert(prog, db, relname, tup, trace=None, rule_idx=None):
    r = prog.rel(relname)
    if r.is_lat:
        key, val = tuple(tup[:-1]), tup[-1]
        d = db[relname]
        if key in d:
            nv = r.tys[-1].join(d[key], val)
            if nv != d[key]:
                d[key] = nv
                if trace is not None:
                    trace.lat_improvements[(relname, key)] = trace.lat_improvements.get((relname, key), 0) + 1
                return True
            return False
        d[key] = val
        return True
    s = db[relname]
    if tup in s:
        return False
    s.add(tup)
    return True


def evaluate(prog, inputs, max_passes=10000):
    """inputs: dict rel -> list of tuples. Returns (db, trace)."""
    db = new_db(prog)
    trace = Trace()
    Budget.steps = 0
    for rel in prog.rels:
        if rel.init:
            for t in rel.init:
                insert(prog, db, rel.name, tuple(t))
    for relname, rows in inputs.items():
        for t in rows:
            insert(prog, db, relname, tuple(t))
    n_input = sum(len(v) for v in db.values())
    comps = stratify(prog)
    for comp in comps:
        cs = set(comp)
        rules = [(ri, r) for ri, r in enumerate(prog.rules) if any(h.rel in cs for h in r.heads)]
        passes = 0
        while True:
            changed = False
            for ri, rule in rules:
                derived = []
                for env in solve(prog, db, rule.body, 0, {}):
                    for h in rule.heads:
                        if h.rel in cs:
                            derived.append((h.rel, tuple(a.ev(env) for a in h.args)))
                for relname, tup in derived:
                    if insert(prog, db, relname, tup, trace, ri):
                        changed = True
                        trace.rule_new[ri] = trace.rule_new.get(ri, 0) + 1
            if not changed:
                break
            passes += 1
            if passes > max_passes:
                raise RefError('no fixpoint after %d passes' % max_passes)
        trace.passes.append(passes)
    trace.derived = sum(len(v) for v in db.values()) - n_input
    return db, trace


def db_rows(prog, db, relname):
    """canonical rows (tuples of python values) of a relation in the reference result"""
    return set(rows_of(prog, db, relname))


def show_row(prog, relname, tup):
    r = prog.rel(relname)
    return '\t'.join(t.show(v) for t, v in zip(r.tys, tup))
