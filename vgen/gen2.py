"""Generator of stratified programs with negation, aggregation and lattices (monotone use only).

Relations carry a *level*: a rule whose heads sit at level l reads positively from levels <= l and negates /
aggregates only levels < l, so every generated program is stratifiable by construction (the reference
re-checks that independently).  Lattice values are used monotonically: they flow into lattice heads through
monotone expressions and into relation heads only through upward-closed tests."""
import random

from .ast import *
from . import types as T
from .gen import Cfg, Fresh, int_expr, bool_expr, gen_cond, gen_clause, gen_head_args, VARS

MAXI = T.MaxTy(T.I32)
DUALI = T.DualTy(T.I32)
OPTI = T.OptTy(T.I32)
BSET2 = T.BSetTy(2)
TUP2 = T.TupTy([T.I32, T.I32])

CAP = 12    # saturation cap of lattice arithmetic


class LatKind:
    """how one lattice type is read, built and tested monotonically"""

    def __init__(self, ty, read, from_ints, mono, test, const):
        self.ty, self.read, self.from_ints, self.mono, self.test, self.const = ty, read, from_ints, mono, test, const


def _ints_or_const(rng, bound, dom):
    return V(rng.choice(bound)) if bound and rng.random() < 0.8 else K(rng.randrange(dom))


LATKINDS = {
    'maxi': LatKind(
        MAXI, 'whole',
        lambda rng, b, dom: int_expr(rng, b, dom) if rng.random() < 0.3 else _ints_or_const(rng, b, dom),
        lambda rng, lv, b, dom: rng.choice([
            lambda: SatAdd(V(lv[0]), _ints_or_const(rng, b, 3), CAP),
            lambda: MinMax('max', V(lv[0]), V(lv[-1]) if len(lv) > 1 else _ints_or_const(rng, b, dom)),
            lambda: V(lv[0]),
            lambda: MinMax('min', V(lv[0]), K(rng.randrange(2, CAP))),
        ])(),
        lambda rng, v, dom: Cmp(rng.choice(['>=', '>']), V(v), K(rng.randrange(1, CAP))),
        lambda rng, dom: K(rng.randrange(dom))),
    'duali': LatKind(
        DUALI, 'dual_int',
        lambda rng, b, dom: Dual(_ints_or_const(rng, b, dom)),
        lambda rng, lv, b, dom: Dual(rng.choice([
            lambda: SatAdd(V(lv[0]), _ints_or_const(rng, b, 4), CAP),
            lambda: MinMax('min', V(lv[0]), V(lv[-1]) if len(lv) > 1 else _ints_or_const(rng, b, dom)),
            lambda: V(lv[0]),
            lambda: MinMax('max', V(lv[0]), K(rng.randrange(0, 3))),
        ])()),
        lambda rng, v, dom: Cmp(rng.choice(['<=', '<']), V(v), K(rng.randrange(1, CAP))),
        lambda rng, dom: Dual(K(rng.randrange(dom + 3)))),
    'bool': LatKind(
        T.BOOL, 'whole',
        lambda rng, b, dom: bool_expr(rng, b, dom) if b else K(True, T.BOOL),
        lambda rng, lv, b, dom: rng.choice([
            lambda: V(lv[0]),
            lambda: BoolOp('||', V(lv[0]), bool_expr(rng, b, dom)),
            lambda: BoolOp('&&', V(lv[0]), V(lv[-1])),
        ])(),
        lambda rng, v, dom: V(v),
        lambda rng, dom: K(rng.random() < 0.5, T.BOOL)),
    'opti': LatKind(
        OPTI, 'whole',
        lambda rng, b, dom: SomeE(_ints_or_const(rng, b, dom)),
        lambda rng, lv, b, dom: rng.choice([lambda: V(lv[0]), lambda: OptMapSatInc(V(lv[0]), CAP)])(),
        lambda rng, v, dom: rng.choice([lambda: OptIsSome(V(v)), lambda: OptGe(V(v), rng.randrange(1, CAP))])(),
        lambda rng, dom: K(rng.choice([None, (rng.randrange(dom),)]), OPTI)),
    'set': LatKind(
        T.SET_U8, 'whole',
        lambda rng, b, dom: SetSingle(_ints_or_const(rng, b, dom)),
        lambda rng, lv, b, dom: V(lv[0]),
        lambda rng, v, dom: SetContains(V(v), rng.randrange(dom)),
        lambda rng, dom: K(frozenset(rng.sample(range(dom), rng.randrange(0, min(3, dom)))), T.SET_U8)),
    'bset': LatKind(
        BSET2, 'whole',
        lambda rng, b, dom: BSetSingle(2, _ints_or_const(rng, b, dom)),
        lambda rng, lv, b, dom: V(lv[0]),
        lambda rng, v, dom: SetContains(V(v), rng.randrange(dom)),
        lambda rng, dom: K(frozenset(rng.sample(range(dom), rng.randrange(0, min(3, dom)))), BSET2)),
    'constprop': LatKind(
        T.CONSTPROP, 'whole',
        lambda rng, b, dom: ConstOf(_ints_or_const(rng, b, dom)),
        lambda rng, lv, b, dom: V(lv[0]),
        lambda rng, v, dom: IsTop(V(v)),
        lambda rng, dom: K(rng.choice(['Bot', ('C', rng.randrange(dom))]), T.CONSTPROP)),
    'tup': LatKind(
        TUP2, 'whole',
        lambda rng, b, dom: TupE([_ints_or_const(rng, b, dom), _ints_or_const(rng, b, dom)]),
        lambda rng, lv, b, dom: V(lv[0]),
        lambda rng, v, dom: Cmp('>=', V(v), K((rng.randrange(dom), rng.randrange(dom)), TUP2)),
        lambda rng, dom: K((rng.randrange(dom), rng.randrange(dom)), TUP2)),
}
KIND_OF_TY = {id(k.ty): name for name, k in LATKINDS.items()}


def latkind_of(ty):
    return LATKINDS[KIND_OF_TY[id(ty)]]


class ProgGen:
    def __init__(self, rng, cfg=None):
        self.rng = rng
        self.cfg = cfg or Cfg()
        self.rels = {}
        self.order = []
        self.level = {}

    # ---- relations
    def make_rels(self):
        rng, cfg = self.rng, self.cfg
        nrel = rng.randint(*cfg.n_rels)
        n_in = min(rng.randint(*cfg.n_input_rels), nrel - 1)
        nlevels = rng.choice([1, 2, 2, 3, 3, 4]) if (cfg.neg or cfg.agg) else 1
        for i in range(nrel):
            is_lat = cfg.lattices and i >= n_in and rng.random() < cfg.p_lattice
            if is_lat:
                kind = rng.choice(cfg.lat_kinds)
                nkeys = rng.choice([0, 1, 1, 1, 2, 2])
                tys = [T.I32] * nkeys + [LATKINDS[kind].ty]
                rel = Rel('l%d' % i, tys, is_lat=True)
            else:
                ar = 0 if rng.random() < cfg.p_zero_ary else rng.choice(cfg.arities)
                tys = [(T.OptTy(T.I32) if rng.random() < cfg.opt_cols else T.I32) for _ in range(ar)]
                rel = Rel('r%d' % i, tys)
            self.rels[rel.name] = rel
            self.order.append(rel.name)
            self.level[rel.name] = 0 if i < n_in else rng.randint(1, nlevels)
        self.input_rels = self.order[:n_in]
        self.derived = self.order[n_in:]
        # input lattices are also possible (as inputs only): occasionally turn an input relation into a lattice
        return self

    # ---- bodies
    def gen_lat_read(self, rel, args, fresh):
        """finish a clause over a lattice relation; returns (args, latvars [(name, kindname)])"""
        rng = self.rng
        out, latvars = [], []
        for a in args:
            if isinstance(a, tuple) and a[0] == 'LAT':
                lk = latkind_of(a[1])
                if rng.random() < 0.12:
                    out.append(AWild())
                    continue
                v = fresh.new(rng)
                if lk.read == 'dual_int' and rng.random() < 0.85:
                    out.append(APat('Dual', v))
                    latvars.append((v, KIND_OF_TY[id(a[1])], 'inner'))
                else:
                    out.append(AVar(v))
                    latvars.append((v, KIND_OF_TY[id(a[1])], 'whole'))
            else:
                out.append(a)
        return out, latvars

    def lat_value(self, ty, bound):
        """a value of lattice type `ty` to compare the lattice column of a lower-stratum lattice with (cfg.bind_lat_col)"""
        k = latkind_of(ty)
        if bound and self.rng.random() < 0.5:
            return k.from_ints(self.rng, list(bound), self.cfg.dom)
        return k.const(self.rng, self.cfg.dom)

    def const_arg(self):
        """a constant column of an aggregated / negated clause: a literal, or (half of the time) a bare identifier naming a
        `const` item in scope (VC<n>: i32 = n, emitted by vgen/emit.py) - an expression, not a rule variable"""
        v = self.rng.randrange(self.cfg.dom)
        if getattr(self.cfg, 'named_consts', True) and v < 8 and self.rng.random() < 0.5:
            return Raw('VC%d' % v, v)
        return K(v)

    def gen_agg(self, fresh, bound, lower, nj=()):
        rng, cfg = self.rng, self.cfg
        joinable = [b for b in bound if b not in nj]
        cands = [n for n in lower if len(self.rels[n].tys) > 0]
        if not cands:
            return None, []
        relname = rng.choice(cands)
        lat_cands = [n for n in cands if self.rels[n].is_lat]
        if getattr(cfg, 'bind_lat_col', 0) and lat_cands and rng.random() < 0.7:
            relname = rng.choice(lat_cands)
        rel = self.rels[relname]
        agg = rng.choice(cfg.aggs)
        need = {'count': 0, 'not': 0, 'sum_prod': 2}.get(agg, 1)
        # candidate columns for aggregation: plain i32 columns (also the value column of an i32 max-lattice)
        int_cols = [i for i, t in enumerate(rel.tys) if isinstance(t, T.IntTy)]
        if rel.is_lat and cfg.no_par_lat_agg:
            int_cols = []      # F10: an aggregated column of a lattice does not compile under the parallel macros
        if len(int_cols) < need:
            agg, need = 'count', 0
        agg_cols = rng.sample(int_cols, need)
        args, bvars = [], []
        for i, t in enumerate(rel.tys):
            is_latcol = rel.is_lat and i == len(rel.tys) - 1
            if i in agg_cols:
                v = fresh.new(rng)
                args.append(AVar(v))
                bvars.append(v)
            elif is_latcol and getattr(cfg, 'bind_lat_col', 0) and rng.random() < cfg.bind_lat_col:
                args.append(AExpr(self.lat_value(t, bound)))
            elif is_latcol or not isinstance(t, T.IntTy):
                args.append(AWild())
            else:
                r = rng.random()
                if r < 0.45 and joinable:
                    args.append(AVar(rng.choice(joinable)))
                elif r < 0.75:
                    args.append(AWild())
                elif r < 0.88:
                    args.append(AExpr(self.const_arg()))
                elif bound:
                    args.append(AExpr(int_expr(rng, bound, cfg.dom)))
                else:
                    args.append(AWild())
        bvars_in_order = [a.name for a in args if isinstance(a, AVar) and a.name in bvars]
        if agg == 'not':
            return Agg(None, 'not', [], relname, args), []
        res = fresh.new(rng)
        param = None
        read, conv = None, None
        if agg == 'count':
            read, conv = '(%s as i32)' % res, int
        elif agg == 'mean':
            read, conv = '((%s * 4.0) as i32)' % res, lambda m: int(m * 4.0)
        elif agg == 'percentile':
            param = rng.choice([0.0, 25.0, 50.0, 75.0, 99.0])
        return Agg(res, agg, bvars_in_order, relname, args, param, read, conv), [res]

    def gen_neg(self, bound, lower, nj=()):
        rng, cfg = self.rng, self.cfg
        joinable = [b for b in bound if b not in nj]
        relname = rng.choice(lower)
        lat_cands = [n for n in lower if self.rels[n].is_lat]
        if getattr(cfg, 'bind_lat_col', 0) and lat_cands and rng.random() < 0.7:
            relname = rng.choice(lat_cands)
        rel = self.rels[relname]
        args = []
        for i, t in enumerate(rel.tys):
            is_latcol = rel.is_lat and i == len(rel.tys) - 1
            if is_latcol and getattr(cfg, 'bind_lat_col', 0) and rng.random() < cfg.bind_lat_col:
                args.append(AExpr(self.lat_value(t, bound)))
                continue
            if is_latcol or not isinstance(t, T.IntTy):
                args.append(AWild())
                continue
            r = rng.random()
            if r < 0.6 and joinable:
                args.append(AVar(rng.choice(joinable)))
            elif r < 0.75:
                args.append(AWild())
            elif r < 0.88 or not bound:
                args.append(AExpr(self.const_arg()))
            else:
                args.append(AExpr(int_expr(rng, bound, cfg.dom)))
        return Neg(relname, args)

    def gen_body(self, fresh, pos, lower, nclauses=None):
        """returns (items, bound int vars, latvars)"""
        rng, cfg = self.rng, self.cfg
        items, bound, latvars = [], [], []
        nj = []     # aggregate results of non-i32 type: usable in expressions (through a cast) but not as join variables
        first_clause_condvars, prev_first, seen_clause = [], False, False
        if nclauses is None:
            nclauses = rng.choice([1, 1, 2, 2, 2, 3, 3, 4][:cfg.max_clauses * 2])
        if nclauses > 0 and rng.random() < cfg.p_leading_binder:
            from .gen import leading_binder
            lead, lb = leading_binder(rng, cfg, fresh)
            items += lead
            bound += lb
        for ci in range(nclauses):
            relname = rng.choice(pos)
            rel = self.rels[relname]
            no_join = list(first_clause_condvars if (prev_first and cfg.avoid_f9) else ()) + nj
            args, conds, new = gen_clause(rng, cfg, self.rels, relname, fresh, bound, no_join=no_join)
            if rel.is_lat:
                args, lv = self.gen_lat_read(rel, args, fresh)
                latvars += lv
                # upward-closed test on the value just read
                for (v, kind, how) in lv:
                    if rng.random() < 0.35:
                        lk = LATKINDS[kind]
                        if how == 'inner' or lk.read == 'whole':
                            conds.append(If(lk.test(rng, v, cfg.dom)))
            items.append(Clause(relname, args, conds))
            bound += new
            prev_first = not seen_clause
            if not seen_clause:
                first_clause_condvars = [v for c in conds for v in c.binds()]
            seen_clause = True
            r = rng.random()
            if r < cfg.p_standalone and bound:
                prev_first = False
                c, nb = gen_cond(rng, cfg, fresh, bound)
                items.append(c)
                bound += nb
            elif r < cfg.p_standalone + cfg.p_neg and cfg.neg and lower:
                prev_first = False
                items.append(self.gen_neg(bound, lower, nj))
            elif r < cfg.p_standalone + cfg.p_neg + cfg.p_agg and cfg.agg and lower:
                prev_first = False
                ag, nb = self.gen_agg(fresh, bound, lower, nj)
                if ag:
                    items.append(ag)
                    bound += nb
                    if ag.res_read:
                        nj += nb
        if nclauses == 0 or (cfg.agg and lower and rng.random() < 0.08 and not items):
            ag, nb = self.gen_agg(fresh, bound, lower, nj)
            if ag:
                items.append(ag)
                bound += nb
        return items, bound, latvars

    def gen_head(self, relname, bound, latvars):
        rng, cfg = self.rng, self.cfg
        rel = self.rels[relname]
        if not rel.is_lat:
            return Head(relname, gen_head_args(rng, cfg, rel, bound))
        keys = gen_head_args(rng, cfg, Rel('k', rel.tys[:-1]), bound)
        lk = latkind_of(rel.tys[-1])
        kind = KIND_OF_TY[id(rel.tys[-1])]
        same = [v for (v, k, how) in latvars if k == kind and (how == 'inner' or lk.read == 'whole')]
        whole_dual = [v for (v, k, how) in latvars if k == kind and how == 'whole' and lk.read == 'dual_int']
        r = rng.random()
        if same and r < 0.75:
            rng.shuffle(same)
            val = lk.mono(rng, same, bound, cfg.dom)
        elif whole_dual and r < 0.75:
            val = V(whole_dual[0])
        elif r < 0.9 or not bound:
            val = lk.from_ints(rng, bound, cfg.dom)
        else:
            val = lk.const(rng, cfg.dom)
        return Head(relname, keys + [val])

    def gen_rule(self, head):
        rng, cfg = self.rng, self.cfg
        fresh = Fresh()
        lvl = self.level[head]
        heads_rels = [head]
        if rng.random() < cfg.p_two_heads:
            same_or_higher = [n for n in self.derived if self.level[n] >= lvl]
            heads_rels.append(rng.choice(same_or_higher))
        pos = [n for n in self.order if self.level[n] <= lvl]
        lower = [n for n in self.order if self.level[n] < lvl]
        if rng.random() < cfg.p_fact:
            return Rule([self.gen_head(h, [], []) for h in heads_rels], [])
        body, bound, latvars = self.gen_body(fresh, pos, lower)
        heads = [self.gen_head(h, bound, latvars) for h in heads_rels]
        return Rule(heads, body, brace=len(heads) > 1 and rng.random() < 0.5)

    def gen(self):
        rng, cfg = self.rng, self.cfg
        self.make_rels()
        nrules = max(rng.randint(*cfg.n_rules), len(self.derived))
        heads_order = list(self.derived)
        while len(heads_order) < nrules:
            heads_order.append(rng.choice(self.derived))
        rng.shuffle(heads_order)
        rules = [self.gen_rule(h) for h in heads_order]
        prog = Program([self.rels[n] for n in self.order], rules)
        return prog, list(self.input_rels)


def default_cfg(**kw):
    cfg = Cfg(no_par_lat_agg=True, p_lattice=0.35, lat_kinds=['maxi', 'duali', 'maxi', 'duali', 'bool', 'opti', 'set', 'bset', 'constprop', 'tup'],
              p_neg=0.15, p_agg=0.15,
              aggs=['count', 'count', 'sum', 'min', 'max', 'mean', 'not', 'percentile', 'second_highest', 'lowest3', 'nothing', 'sum_prod'])
    cfg.__dict__.update(kw)
    return cfg


def gen_program(rng, cfg=None):
    return ProgGen(rng, cfg or default_cfg()).gen()


def add_probes(prog, rng, max_probes=3, no_par_lat_agg=True):
    """multiplicity probes (DESIGN 3.4): count / sum strata over a sample of relations and bound-column subsets,
    so that a duplicated index entry becomes a wrong, publicly visible number. Returns a new Program."""
    rels = list(prog.rels)
    rules = list(prog.rules)
    cands = [r for r in prog.rels if r.ds is None and len(r.tys) >= 1]
    rng.shuffle(cands)
    n = 0
    for r in cands[:max_probes]:
        int_cols = [i for i, t in enumerate(r.tys) if isinstance(t, T.IntTy) and not (r.is_lat and i == len(r.tys) - 1)]
        # total count
        name = 'pb%d' % n
        n += 1
        rels.append(Rel(name, [T.I32]))
        rules.append(Rule([Head(name, [V('n')])],
                          [Agg('n', 'count', [], r.name, [AWild() for _ in r.tys], None, '(n as i32)', int)]))
        if int_cols:
            kc = rng.choice(int_cols)
            name = 'pb%d' % n
            n += 1
            rels.append(Rel(name, [T.I32, T.I32]))
            args1 = [AVar('k') if i == kc else AWild() for i in range(len(r.tys))]
            rules.append(Rule([Head(name, [V('k'), V('n')])],
                              [Clause(r.name, args1),
                               Agg('n', 'count', [], r.name, [AVar('k') if i == kc else AWild() for i in range(len(r.tys))], None, '(n as i32)', int)]))
            others = [i for i in int_cols if i != kc]
            if others and rng.random() < 0.5 and not (r.is_lat and no_par_lat_agg):
                sc = rng.choice(others)
                name = 'pb%d' % n
                n += 1
                rels.append(Rel(name, [T.I32, T.I32]))
                rules.append(Rule([Head(name, [V('k'), V('s')])],
                                  [Clause(r.name, list(args1)),
                                   Agg('s', 'sum', ['m'], r.name,
                                       [AVar('k') if i == kc else (AVar('m') if i == sc else AWild()) for i in range(len(r.tys))])]))
    return Program(rels, rules, prog.macros, prog.attrs)
