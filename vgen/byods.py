"""BYODS providers (C10 eqrel, C11 trrel, C12 trrel_uf): programs with a tagged relation, and the explicit closure
rules that define what the tagged relation must behave like (the reference evaluates the untagged program + these)."""
import random

from .ast import *
from . import types as T
from . import gen as G
from . import gen2 as G2


def closure_rules(provider, name, ternary):
    """explicit closure of relation `name` (per key for ternary)"""
    k = [AVar('k')] if ternary else []
    kh = [V('k')] if ternary else []

    def cl(a, b):
        return Clause(name, k + [AVar(a), AVar(b)])

    def hd(a, b):
        return Head(name, kh + [V(a), V(b)])
    rules = [Rule([hd('x', 'z')], [cl('x', 'y'), cl('y', 'z')])]            # transitive
    if provider in ('eqrel', 'trrel_uf'):
        rules.append(Rule([hd('x', 'x'), hd('y', 'y')], [cl('x', 'y')]))    # reflexive on mentioned elements
    if provider == 'eqrel':
        rules.append(Rule([hd('y', 'x')], [cl('x', 'y')]))                  # symmetric
    return rules


def reference_program(prog, provider, tagged):
    """the same program with the tag removed and the closure rules added"""
    rels = [Rel(r.name, r.tys, r.is_lat, None, r.init) for r in prog.rels]
    rules = list(prog.rules)
    for name in tagged:
        rules += closure_rules(provider, name, len(prog.rel(name).tys) == 3)
    return Program(rels, rules, prog.macros, prog.attrs)


def sched_program(rng, provider, ternary):
    """seed + feed schedule: the harness controls in which iteration each fact (of each key) arrives"""
    I = T.I32
    kt = [I] if ternary else []
    ka = [AVar('k')] if ternary else []
    kv = [V('k')] if ternary else []
    k2a = [AVar('k2')] if ternary else []
    k2v = [V('k2')] if ternary else []
    rels = [Rel('seed', kt + [I, I]), Rel('feed', kt + [I, I] + kt + [I, I]), Rel('q', [I]), Rel('q2', [I]), Rel('q3', [I]),
            Rel('r', kt + [I, I], ds=provider),
            Rel('mirror', kt + [I, I]), Rel('rd_bf', kt + [I, I]), Rel('rd_fb', kt + [I, I]), Rel('rd_bb', kt + [I, I]),
            Rel('rd_xx', kt + [I]), Rel('rd_c', kt + [I]), Rel('cnt', [I]), Rel('cntk', kt + [I, I]), Rel('non', kt + [I, I]),
            Rel('back', kt + [I, I]), Rel('jn', kt + [I, I]), Rel('trig', kt + [I]), Rel('jn2', kt + [I, I]), Rel('jn3', kt + [I, I])]
    c = rng.randrange(0, 4)
    rules = [
        Rule([Head('r', kv + [V('x'), V('y')])], [Clause('seed', ka + [AVar('x'), AVar('y')])]),
        # (multi-head: `trig` gets a new tuple in the very iteration in which the fact for its key arrives)
        Rule([Head('r', k2v + [V('x'), V('y')]), Head('trig', k2v + [V('x')])], [Clause('r', ka + [AVar('a'), AVar('b')]), Clause('feed', ka + [AVar('a'), AVar('b')] + k2a + [AVar('x'), AVar('y')])]),
        Rule([Head('mirror', kv + [V('x'), V('y')])], [Clause('r', ka + [AVar('x'), AVar('y')])]),
        Rule([Head('rd_bf', kv + [V('x'), V('y')])], [Clause('q', [AVar('x')]), Clause('r', ka + [AVar('x'), AVar('y')])]),
        Rule([Head('rd_fb', kv + [V('x'), V('y')])], [Clause('q', [AVar('y')]), Clause('r', ka + [AVar('x'), AVar('y')])]),
        Rule([Head('rd_bb', kv + [V('x'), V('y')])], [Clause('q', [AVar('x')]), Clause('q2', [AVar('y')]), Clause('r', ka + [AVar('x'), AVar('y')])]),
        Rule([Head('rd_xx', kv + [V('x')])], [Clause('r', ka + [AVar('x'), AVar('x')])]),
        Rule([Head('rd_c', kv + [V('y')])], [Clause('r', ka + [AExpr(K(c)), AVar('y')])]),
        Rule([Head('cnt', [V('n')])], [Agg('n', 'count', [], 'r', [AWild()] * (3 if ternary else 2), None, '(n as i32)', int)]),
        Rule([Head('cntk', kv + [V('x'), V('n')])], ([Clause('q3', [AVar('k')])] if ternary else []) + [Clause('q', [AVar('x')]),
             Agg('n', 'count', [], 'r', ka + [AVar('x'), AWild()], None, '(n as i32)', int)]),
        Rule([Head('non', kv + [V('x'), V('y')])], ([Clause('q3', [AVar('k')])] if ternary else []) + [Clause('q', [AVar('x')]), Clause('q2', [AVar('y')]), Neg('r', ka + [AVar('x'), AVar('y')])]),
        # a reader inside the recursive stratum that feeds the tagged relation back
        Rule([Head('back', kv + [V('x'), V('y')])], [Clause('r', ka + [AVar('x'), AVar('y')]), Clause('q2', [AVar('x')])]),
        Rule([Head('r', kv + [V('y'), V('x')])], [Clause('back', ka + [AVar('x'), AVar('y')]), Clause('q3', [AVar('y')])]),
        # the delta of another relation of the stratum joined against (older) facts of the tagged relation, key bound
        Rule([Head('jn', kv + [V('x'), V('y')])], [Clause('back', ka + [AVar('x'), AVar('w')]), Clause('r', ka + [AVar('w'), AVar('y')])]),
        Rule([Head('r', kv + [V('x'), V('y')])], [Clause('jn', ka + [AVar('x'), AVar('y')]), Clause('q3', [AVar('x')]), Clause('q', [AVar('y')])]),
        # ... and a relation whose delta is one iteration ahead of `back`'s, joined against the key's older facts
        Rule([Head('jn2', kv + [V('w'), V('y')])], [Clause('trig', ka + [AVar('w')]), Clause('r', ka + [AVar('w'), AVar('y')])]),
        Rule([Head('r', kv + [V('y'), V('w')])], [Clause('jn2', ka + [AVar('w'), AVar('y')]), Clause('q3', [AVar('w')]), Clause('q2', [AVar('y')])]),
        # a reader with three body clauses inside the recursive stratum (such rules get the any-relation-empty shortcut)
        Rule([Head('jn3', kv + [V('x'), V('y')])], [Clause('q', [AVar('x')]), Clause('r', ka + [AVar('x'), AVar('y')]), Clause('q2', [AVar('y')])]),
        Rule([Head('r', kv + [V('y'), V('x')])], [Clause('jn3', ka + [AVar('x'), AVar('y')]), Clause('q3', [AVar('x')])]),
    ]
    if ternary:
        # readers binding the key column in every combination
        rels += [Rel('rk_b', [I, I, I]), Rel('rk_c', [I, I]), Rel('rk_f', [I, I, I])]
        kc = rng.randrange(0, 3)
        rules += [Rule([Head('rk_b', [V('k'), V('x'), V('y')])], [Clause('q3', [AVar('k')]), Clause('r', [AVar('k'), AVar('x'), AVar('y')])]),
                  Rule([Head('rk_c', [V('x'), V('y')])], [Clause('r', [AExpr(K(kc)), AVar('x'), AVar('y')])]),
                  Rule([Head('rk_f', [V('k'), V('x'), V('y')])], [Clause('q', [AVar('x')]), Clause('r', [AVar('k'), AVar('x'), AVar('y')])])]
    # two-clause readers `pS(cols in S), r(all cols)` for every non-empty subset S of r's columns: a simple join, so that at run
    # time either side may drive the loop (r is then scanned through iter_all of its index on S); the probe relations come in sizes
    # on both sides of that decision. In a later stratum (total only) and, for one S per program, inside the recursive stratum
    # (delta versions), feeding the tagged relation back.
    cols = (['k'] if ternary else []) + ['x', 'y']
    subsets = [[c for i, c in enumerate(cols) if m >> i & 1] for m in range(1, 1 << len(cols))]
    probe_rels = []
    for S in subsets:
        tag = ''.join(S)
        rels += [Rel('p_' + tag, [I] * len(S)), Rel('ps_' + tag, [I] * len(cols))]
        probe_rels.append(('p_' + tag, S))
        rules.append(Rule([Head('ps_' + tag, [V(c) for c in cols])], [Clause('p_' + tag, [AVar(c) for c in S]), Clause('r', [AVar(c) for c in cols])]))
    S = rng.choice(subsets)
    tag = ''.join(S)
    rels += [Rel('pr', [I] * len(S)), Rel('psr', [I] * len(cols))]
    probe_rels.append(('pr', S))
    rules.append(Rule([Head('psr', [V(c) for c in cols])], [Clause('pr', [AVar(c) for c in S]), Clause('r', [AVar(c) for c in cols])]))
    rules.append(Rule([Head('r', kv + [V('y'), V('x')])], [Clause('psr', [AVar(c) for c in cols]), Clause('q3', [AVar('y')])]))
    prog = Program(rels, rules)

    def probe_rows(rng, n, nk):
        rows = []
        for name, S in probe_rels:
            space = [()]
            for c in S:
                space = [t + (v,) for t in space for v in range(nk if c == 'k' else n)]
            mode = rng.choice(['tiny', 'all', 'big', 'half'])
            if mode == 'tiny':
                pick = rng.sample(space, min(len(space), rng.randrange(0, 3)))
            elif mode == 'half':
                pick = rng.sample(space, len(space) // 2)
            else:
                pick = list(space)
            if mode == 'big':
                # rows that can never join (values outside the domain) make the probe relation larger than any estimate of r
                pick += [tuple(100 + j for _ in S) for j in range(rng.choice([20, 60, 200]))]
            rows += [(name, t) for t in pick]
        return rows

    def inputs(rng):
        n = rng.choice([3, 4, 5, 6])                 # element domain
        nk = rng.choice([1, 2, 3, 3, 5, 9, 17]) if ternary else 1
        shape = rng.choice(['chain', 'cycle', 'random', 'merge', 'pause', 'selfloop', 'dense', 'chainmerge'] + (['fanout', 'samefact'] if ternary else []))
        if shape == 'chainmerge' and n < 6:
            n = 6
        facts = []                                   # facts to be inserted in order, one per iteration

        def fact(k, x, y):
            return ((k,) if ternary else ()) + (x, y)
        if shape == 'chain':
            facts = [fact(rng.randrange(nk), i, i + 1) for i in range(n - 1)]
        elif shape == 'cycle':
            m = rng.randrange(1, n + 1)
            facts = [fact(0, i, (i + 1) % m) for i in range(m)]
        elif shape == 'selfloop':
            facts = [fact(rng.randrange(nk), i, i) for i in range(rng.randrange(1, n))] + [fact(0, 0, 1)]
        elif shape == 'merge':
            # two classes first, then an edge merging them, then a back edge
            facts = [fact(0, 0, 1), fact(0, 2, 3), fact(0, 1, 2), fact(0, 3, 0)]
        elif shape == 'pause':
            # key 0 active, then silent while key 1 is active, then active again (F4 / F6 region)
            k1 = 1 if nk > 1 else 0
            facts = [fact(0, 0, 1), fact(k1, 0, 1), fact(k1, 1, 2), fact(k1, 2, 0), fact(0, 1, 2), fact(0, 2, 3 % n)]
        elif shape == 'chainmerge' and n >= 6:
            # three classes from earlier iterations; then two of them are joined, later the third: a chain of two absorptions whose
            # innermost members are not mentioned again (either orientation of each joining fact)
            k0 = rng.randrange(nk)
            j1 = (2, 4) if rng.random() < 0.5 else (4, 2)
            j2 = (0, 2) if rng.random() < 0.5 else (2, 0)
            facts = [fact(k0, 0, 1), fact(k0, 2, 3), fact(k0, 4, 5), fact(k0, *j1), fact(k0, *j2)]
        elif shape == 'fanout':
            # an element known under one key turns up, within a single later iteration, under several other keys at once
            e = rng.randrange(n)
            facts = [fact(0, e, (e + 1) % n), fact(0, (e + 1) % n, (e + 2) % n)]
            facts += [fact(k, e, rng.randrange(n)) for k in range(1, nk)] + [fact(rng.randrange(nk), rng.randrange(n), e)]
        elif shape == 'samefact':
            # many keys, few distinct endpoints: every key holds the same one or two edges
            a, b = rng.randrange(n), rng.randrange(n)
            facts = [fact(k, a, b) for k in range(nk)] + ([fact(k, b, (b + 1) % n) for k in range(nk)] if rng.random() < 0.4 else [])
        elif shape == 'dense':
            facts = [fact(rng.randrange(nk), rng.randrange(n), rng.randrange(n)) for _ in range(rng.randrange(n, 3 * n))]
        else:
            facts = [fact(rng.randrange(nk), rng.randrange(n), rng.randrange(n)) for _ in range(rng.randrange(1, 2 * n))]
        mode = rng.choice(['all_at_once', 'one_per_iteration', 'mixed'] + (['burst'] if shape == 'fanout' else []))
        rows = []
        if mode == 'all_at_once' or len(facts) == 1:
            rows += [('seed', f) for f in facts]
        elif mode == 'burst':
            # the first two facts one per iteration, all the others in the iteration after
            rows += [('seed', facts[0]), ('feed', facts[0] + facts[1])] + [('feed', facts[1] + f) for f in facts[2:]]
        else:
            nseed = 1 if mode == 'one_per_iteration' else rng.randrange(1, len(facts))
            rows += [('seed', f) for f in facts[:nseed]]
            prev = facts[nseed - 1]
            for f in facts[nseed:]:
                rows.append(('feed', prev + f))
                if mode == 'one_per_iteration' or rng.random() < 0.6:
                    prev = f
        dom = list(range(n))
        for qn in ('q', 'q2', 'q3'):
            for x in (dom if rng.random() < 0.3 else rng.sample(dom, rng.randrange(0, n + 1))):
                rows.append((qn, (x,)))
        rows += probe_rows(rng, n, nk)
        rows = list(dict.fromkeys(rows))
        rng.shuffle(rows)
        return rows, {'shape': shape, 'mode': mode, 'keys': nk}
    return prog, ['seed', 'feed', 'q', 'q2', 'q3'] + [nm for nm, _ in probe_rels], inputs


def random_program(rng, provider, ternary_ok=True):
    """a random stratified program in which one or two binary / ternary i32 relations are tagged"""
    for _ in range(200):
        cfg = G2.default_cfg(lattices=False, neg=True, agg=True, opt_cols=0.0, p_zero_ary=0.0)
        cfg.dom = rng.choice([3, 4])
        cfg.n_rels, cfg.n_rules = (3, 6), (3, 8)
        cfg.arities = [1, 2, 2, 2, 3, 3]
        pg = G2.ProgGen(rng, cfg)
        prog, input_rels = pg.gen()
        cands = [r for r in prog.rels if r.name not in input_rels and len(r.tys) in ((2, 3) if ternary_ok else (2,))]
        if not cands:
            continue
        tagged = [rng.choice(cands).name]
        rels = [Rel(r.name, r.tys, r.is_lat, provider if r.name in tagged else None) for r in prog.rels]
        # mirrors make the tagged relation's contents observable
        rules = list(prog.rules)
        for t in tagged:
            tys = prog.rel(t).tys
            rels.append(Rel('mirror_' + t, tys))
            vs = ['mx', 'my', 'mz'][:len(tys)]
            rules.append(Rule([Head('mirror_' + t, [V(v) for v in vs])], [Clause(t, [AVar(v) for v in vs])]))
        p2 = Program(rels, rules)
        return p2, input_rels, tagged, cfg.dom
    raise RuntimeError('no taggable relation generated')


def simple_positive_program(rng, provider, ternary=False):
    """tagged relation fed from a plain one in an early stratum, extended and read in later (also looping) strata;
    no negation / aggregation, so facts may be added between runs"""
    I = T.I32
    kt = [I] if ternary else []
    ka = [AVar('k')] if ternary else []
    kv = [V('k')] if ternary else []
    rels = [Rel('edge', kt + [I, I]), Rel('extra', kt + [I, I]), Rel('q', [I]), Rel('r', kt + [I, I], ds=provider), Rel('mirror', kt + [I, I]),
            Rel('reach', kt + [I, I]), Rel('from_q', kt + [I, I]), Rel('to_q', kt + [I, I])]
    rules = [
        Rule([Head('r', kv + [V('x'), V('y')])], [Clause('edge', ka + [AVar('x'), AVar('y')])]),
        # a later looping stratum reads and extends the tagged relation
        Rule([Head('reach', kv + [V('x'), V('y')])], [Clause('r', ka + [AVar('x'), AVar('y')]), Clause('q', [AVar('x')])]),
        Rule([Head('reach', kv + [V('x'), V('z')])], [Clause('reach', ka + [AVar('x'), AVar('y')]), Clause('extra', ka + [AVar('y'), AVar('z')])]),
        Rule([Head('r', kv + [V('x'), V('y')])], [Clause('reach', ka + [AVar('x'), AVar('y')]), Clause('q', [AVar('y')])]),
        Rule([Head('mirror', kv + [V('x'), V('y')])], [Clause('r', ka + [AVar('x'), AVar('y')])]),
        Rule([Head('from_q', kv + [V('x'), V('y')])], [Clause('q', [AVar('x')]), Clause('r', ka + [AVar('x'), AVar('y')])]),
        Rule([Head('to_q', kv + [V('x'), V('y')])], [Clause('q', [AVar('y')]), Clause('r', ka + [AVar('x'), AVar('y')])]),
    ]
    prog = Program(rels, rules)

    def inputs(rng):
        n = rng.choice([3, 4, 5, 6])
        nk = rng.choice([1, 2]) if ternary else 1
        rows = []
        for rel, m in (('edge', rng.randrange(1, 2 * n)), ('extra', rng.randrange(0, n))):
            for _ in range(m):
                rows.append((rel, ((rng.randrange(nk),) if ternary else ()) + (rng.randrange(n), rng.randrange(n))))
        for x in rng.sample(range(n), rng.randrange(0, n + 1)):
            rows.append(('q', (x,)))
        rows = list(dict.fromkeys(rows))
        rng.shuffle(rows)
        return rows
    return prog, ['edge', 'extra', 'q'], inputs
