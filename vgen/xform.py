"""AST transformers for the metamorphic checks (C06 reorder / rename / re-type, C07 hand expansion of sugar).

The expansions are written from the *documented* meaning of each surface form, not from ascent_syntax.rs."""
import copy
import random

from .ast import *
from . import types as T
from .gen import check_scoping

SAFE_VARS = ['alpha', 'beta', 'gamma', 'delta', 'src', 'dst', 'cost', 'len', 'item', 'elem', 'lhs', 'rhs', 'acc', 'cur', 'nxt',
             'hd', 'tl', 'left', 'right', 'up', 'down', 'foo', 'bar', 'baz', 'qux', 'k1', 'k2', 'v1', 'v2', 't1', 't2', 'xx', 'yy', 'zz',
             'x1', 'y1', 'z1', 'i', 'j', 'k', 'm', 'n', 'o', 'r', 's', 't', 'val', 'row', 'key', 'idx', 'new', 'total', 'rel',
             'X', 'Y', 'Z', 'Self_', 'r0', 'l1']
# identifiers excluded as reserved by generated code (the property exempts them): leading '_', trailing '_' or '_<digits>',
# cl1_val, tuple, before_rule, any_rel_empty, timeout; for relations additionally the struct's own fields
SAFE_VARS = [v for v in SAFE_VARS if not v.endswith('_') and v not in ('new', 'total')]
SAFE_RELS = ['edge', 'path', 'reach', 'link', 'node', 'fact', 'tmp', 'aux', 'out', 'inp', 'acc', 'base', 'step', 'foo', 'bar', 'baz',
             'Edge', 'PATH', 'x', 'y', 'rel', 'relation_', 'run', 'summary', 'iter', 'len', 'vec', 'data', 'a', 'b', 'zz9']
SAFE_RELS = [r for r in SAFE_RELS if not r.endswith('_')]


# ------------------------------------------------------------------------------------------------
# helpers


def rule_vars(rule):
    vs = []

    def add(v):
        if v not in vs:
            vs.append(v)

    def walk(items):
        for it in items:
            if isinstance(it, Disj):
                for alt in it.alts:
                    walk(alt)
                continue
            if isinstance(it, MacroCall):
                continue
            for v in it.binds():
                add(v)
            for v in sorted(it.uses()):
                add(v)
            if isinstance(it, Agg):
                for b in it.bound:
                    add(b)
    walk(rule.body)
    for h in rule.heads:
        for a in h.args:
            for v in sorted(a.vars()):
                add(v)
    return vs


def has_f9_shape(rule):
    """first two body items are clauses, and the second mentions (as a plain argument) a variable bound by a
    condition attached to the first (Ascent's simple-join path looks the second clause up before those conditions run)"""
    cl = [i for i, it in enumerate(rule.body) if isinstance(it, Clause)]
    if not cl:
        return False
    f = cl[0]
    if f + 1 >= len(rule.body) or not isinstance(rule.body[f + 1], Clause):
        return False
    condvars = set(v for c in rule.body[f].conds for v in c.binds())
    if not condvars:
        return False
    for a in rule.body[f + 1].args:
        if isinstance(a, AVar) and a.name in condvars:
            return True
        if isinstance(a, AExpr) and (a.e.vars() & condvars):
            return True
    return False


def one_rule_prog(prog, rule):
    return Program(prog.rels, [rule])


# ------------------------------------------------------------------------------------------------
# C06: permutations and renamings


def permute_rules(prog, rng):
    rules = list(prog.rules)
    rng.shuffle(rules)
    return Program(prog.rels, rules, prog.macros, prog.attrs)


def permute_decls(prog, rng):
    rels = list(prog.rels)
    rng.shuffle(rels)
    return Program(rels, prog.rules, prog.macros, prog.attrs)


def permute_heads(prog, rng):
    rules = []
    for r in prog.rules:
        hs = list(r.heads)
        rng.shuffle(hs)
        rules.append(Rule(hs, r.body, r.brace))
    return Program(prog.rels, rules, prog.macros, prog.attrs)


def permute_bodies(prog, rng):
    """random permutation of the body items of each rule, kept only if the rule stays well-scoped
    (then the conjunction of constraints is the same) and does not take the F9 shape"""
    rules = []
    changed = 0
    for r in prog.rules:
        best = r
        if len(r.body) >= 2:
            for _ in range(8):
                b = list(r.body)
                rng.shuffle(b)
                cand = Rule(r.heads, b, r.brace)
                if b != r.body and not check_scoping(one_rule_prog(prog, cand)) and not has_f9_shape(cand) and binding_roles_same(r, cand):
                    best = cand
                    changed += 1
                    break
        rules.append(best)
    return Program(prog.rels, rules, prog.macros, prog.attrs), changed


def binding_roles_same(r1, r2):
    """variables bound by let / for / if-let / agg / patterns must be bound by the same item in both orders
    (guaranteed by scoping: such binders may not re-bind), so only check nothing was lost"""
    return sorted(map(repr, map(type, r1.body))) == sorted(map(repr, map(type, r2.body)))


def swap_first_two_clauses(prog, rng):
    rules = []
    changed = 0
    for r in prog.rules:
        cl = [i for i, it in enumerate(r.body) if isinstance(it, Clause)]
        if len(cl) >= 2 and cl[1] == cl[0] + 1:
            b = list(r.body)
            b[cl[0]], b[cl[1]] = b[cl[1]], b[cl[0]]
            cand = Rule(r.heads, b, r.brace)
            if not check_scoping(one_rule_prog(prog, cand)) and not has_f9_shape(cand):
                rules.append(cand)
                changed += 1
                continue
        rules.append(r)
    return Program(prog.rels, rules, prog.macros, prog.attrs), changed


def rename_vars(prog, rng):
    rules = []
    for r in prog.rules:
        vs = rule_vars(r)
        pool = [v for v in SAFE_VARS]
        rng.shuffle(pool)
        m = {}
        for i, v in enumerate(vs):
            m[v] = pool[i] if i < len(pool) else 'vv%d' % i
        rules.append(ren_rule(r, m, None))
    return Program(prog.rels, rules, prog.macros, prog.attrs)


def ren_rule(r, m, relmap):
    nr = r.ren(m, relmap)
    return nr


def rename_rels(prog, rng):
    names = []
    for r in prog.rels:
        if r.name not in names:
            names.append(r.name)
    pool = list(SAFE_RELS)
    rng.shuffle(pool)
    relmap = {}
    for i, n in enumerate(names):
        relmap[n] = pool[i] if i < len(pool) else 'rr%d' % i
    rels = [Rel(relmap[r.name], r.tys, r.is_lat, r.ds, r.init) for r in prog.rels]
    rules = [r.ren({}, relmap) for r in prog.rules]
    return Program(rels, rules, prog.macros, prog.attrs), relmap


# ---- constant remapping with a change of column type (programs without interpreted functions)


def map_expr_consts(e, f, newty):
    if isinstance(e, K):
        if e.ty is T.I32 or (isinstance(e.ty, T.IntTy) and not e.ty.is_lattice):
            return K(f(e.v), newty)
        return e
    if isinstance(e, V):
        return e
    if isinstance(e, Cmp):
        return Cmp(e.op, map_expr_consts(e.a, f, newty), map_expr_consts(e.b, f, newty))
    if isinstance(e, BoolOp):
        return BoolOp(e.op, map_expr_consts(e.a, f, newty), map_expr_consts(e.b, f, newty) if e.b else None)
    raise ValueError('interpreted function in a program that should have none: %r' % e)


def retype_item(it, f, newty):
    if isinstance(it, Clause):
        return Clause(it.rel, [retype_arg(a, f, newty) for a in it.args], [retype_item(c, f, newty) for c in it.conds])
    if isinstance(it, Neg):
        return Neg(it.rel, [retype_arg(a, f, newty) for a in it.args])
    if isinstance(it, If):
        return If(map_expr_consts(it.e, f, newty))
    if isinstance(it, Disj):
        return Disj([[retype_item(i, f, newty) for i in alt] for alt in it.alts])
    raise ValueError('item not allowed in a pure program: %r' % it)


def retype_arg(a, f, newty):
    if isinstance(a, AExpr):
        return AExpr(map_expr_consts(a.e, f, newty))
    return a


def retype(prog, f, newty):
    """maps every i32 constant through the injective f and changes every i32 column to newty"""
    rels = [Rel(r.name, [newty if t is T.I32 else t for t in r.tys], r.is_lat, r.ds, r.init) for r in prog.rels]
    rules = []
    for r in prog.rules:
        heads = [Head(h.rel, [map_expr_consts(a, f, newty) for a in h.args]) for h in r.heads]
        rules.append(Rule(heads, [retype_item(i, f, newty) for i in r.body], r.brace))
    return Program(rels, rules, prog.macros, prog.attrs)


# ------------------------------------------------------------------------------------------------
# C07: hand expansion of every surface form into the documented core form


class _Fresh:
    def __init__(self, used):
        self.used = set(used)
        self.n = 0

    def new(self, hint='f'):
        while True:
            self.n += 1
            v = '%sx%d' % (hint, self.n)
            if v not in self.used:
                self.used.add(v)
                return v


def expand_disjunctions(items):
    """list of alternatives (each a list of items without Disj): one per choice of a disjunct from every disjunction"""
    res = [[]]
    for it in items:
        if isinstance(it, Disj):
            subs = []
            for alt in it.alts:
                subs += expand_disjunctions(alt)
            res = [r + s for r in res for s in subs]
        else:
            res = [r + [it] for r in res]
    return res


def expand_clause(cl, bound, fresh, do_pat=True, do_rep=True, do_expr=True, do_wild=True):
    """`bound`: variables bound before this clause. Returns the clause in core form."""
    args, pre = [], []
    local = set()
    for a in cl.args:
        if isinstance(a, APat) and do_pat:
            v = fresh.new('p')
            args.append(AVar(v))
            pre.append(IfLet(a.var, V(v), a.kind))
        elif isinstance(a, AWild) and do_wild:
            args.append(AVar(fresh.new('w')))
        elif isinstance(a, AExpr) and do_expr:
            v = fresh.new('e')
            args.append(AVar(v))
            pre.append(If(Cmp('==', V(v), a.e)))
        elif isinstance(a, AVar) and a.name in local and do_rep:
            v = fresh.new('r')
            args.append(AVar(v))
            pre.append(If(Cmp('==', V(v), V(a.name))))
        else:
            args.append(a)
            if isinstance(a, AVar):
                local.add(a.name)
    # equality tests first (they mention only plain variables of this clause and earlier ones), then the if-lets of
    # patterns (their variables may be used by the user's own conditions), then the user's conditions
    eqs = [c for c in pre if isinstance(c, If)]
    lets = [c for c in pre if isinstance(c, IfLet)]
    return Clause(cl.rel, args, eqs + lets + list(cl.conds))


def expand_rule(rule, opts):
    """returns (list of core rules, list of facts [(rel, [exprs])] removed from the program)"""
    out, facts = [], []
    bodies = expand_disjunctions(rule.body) if opts.get('disj', True) else [list(rule.body)]
    for body in bodies:
        fresh = _Fresh(rule_vars(rule))
        new_body = []
        bound = set()
        for it in body:
            if isinstance(it, Clause):
                new_body.append(expand_clause(it, bound, fresh, opts.get('pat', True), opts.get('rep', True), opts.get('expr', True), opts.get('wild', True)))
            elif isinstance(it, Neg) and opts.get('neg', True):
                new_body.append(Agg(None, 'not', [], it.rel, list(it.args)))
            else:
                new_body.append(it)
            bound |= set(new_body[-1].binds())
        heads_groups = [[h] for h in rule.heads] if opts.get('heads', True) else [list(rule.heads)]
        for hs in heads_groups:
            if not new_body and opts.get('facts', True) and not any(h.rel in opts.get('lat_rels', ()) for h in hs):
                for h in hs:
                    facts.append((h.rel, h.args))
            else:
                out.append(Rule(hs, new_body, brace=False))
    return out, facts


def expand_program(prog, opts=None):
    """returns (core program, extra input facts [(rel, python tuple)])"""
    opts = opts or {}
    rules, facts = [], []
    for r in prog.rules:
        rs, fs = expand_rule(r, opts)
        rules += rs
        for rel, args in fs:
            facts.append((rel, tuple(a.ev({}) for a in args)))
    return Program(prog.rels, rules, prog.macros, prog.attrs), facts
