"""Ill-forming mutations (C15): each takes a well-formed program and returns variants that violate exactly one of
the listed rules, at a chosen position. Returned as (kind, description, program text)."""
import copy
import random

from .ast import *
from . import types as T
from .gen import check_scoping
from . import ref as R


def _clone_rule(r, heads=None, body=None):
    return Rule(list(r.heads) if heads is None else heads, list(r.body) if body is None else body, r.brace)


def _with_rule(prog, i, rule, extra_rels=(), extra_rules=()):
    rules = list(prog.rules)
    rules[i] = rule
    return Program(list(prog.rels) + list(extra_rels), rules + list(extra_rules), prog.macros, prog.attrs)


def rule_bound_vars(rule):
    vs = []
    for it in rule.body:
        for v in it.binds():
            if v not in vs:
                vs.append(v)
    return vs


def mutations(prog, rng, per_kind=2):
    out = []
    rules_with_body = [i for i, r in enumerate(prog.rules) if r.body]

    def pick_rules(k):
        idx = list(rules_with_body)
        rng.shuffle(idx)
        return idx[:k]

    # ---- undeclared relation
    for i in pick_rules(per_kind):
        r = prog.rules[i]
        pos = [k for k, it in enumerate(r.body) if isinstance(it, (Clause, Neg, Agg))]
        choice = rng.choice(['head'] + (['body'] if pos else []))
        if choice == 'head':
            h = r.heads[0]
            nr = _clone_rule(r, heads=[Head('undeclared_rel', h.args)] + list(r.heads[1:]))
            out.append(('undeclared', 'head clause %d of rule %d refers to an undeclared relation' % (0, i), _with_rule(prog, i, nr).text()))
        else:
            k = rng.choice(pos)
            it = copy.copy(r.body[k])
            it.rel = 'undeclared_rel'
            b = list(r.body)
            b[k] = it
            out.append(('undeclared', '%s item %d of rule %d refers to an undeclared relation' % (type(it).__name__, k, i), _with_rule(prog, i, _clone_rule(r, body=b)).text()))
    # ---- wrong arity
    for i in pick_rules(per_kind):
        r = prog.rules[i]
        pos = [k for k, it in enumerate(r.body) if isinstance(it, (Clause, Neg, Agg))]
        if pos and rng.random() < 0.7:
            k = rng.choice(pos)
            it = copy.copy(r.body[k])
            args = list(it.args)
            if args and rng.random() < 0.5:
                args.pop(rng.randrange(len(args)))
                what = 'one argument dropped'
            else:
                args.insert(rng.randrange(len(args) + 1), AWild() if isinstance(it, Clause) else AExpr(K(0)))
                what = 'one argument added'
            it.args = args
            b = list(r.body)
            b[k] = it
            out.append(('arity', '%s item %d of rule %d: %s' % (type(it).__name__, k, i, what), _with_rule(prog, i, _clone_rule(r, body=b)).text()))
        else:
            h = r.heads[0]
            args = list(h.args)
            if args and rng.random() < 0.5:
                args.pop()
                what = 'one argument dropped'
            else:
                args.append(K(0))
                what = 'one argument added'
            out.append(('arity', 'head of rule %d: %s' % (i, what), _with_rule(prog, i, _clone_rule(r, heads=[Head(h.rel, args)] + list(r.heads[1:]))).text()))
    # ---- negation / aggregation inside the relation's own recursive stratum
    for i in pick_rules(per_kind + 1):
        r = prog.rules[i]
        h = r.heads[0]
        rel = prog.rel(h.rel)
        n = len(rel.tys)
        shape = rng.choice(['direct_neg', 'direct_agg', 'via_rule', 'via_multihead', 'via_chain'])
        if shape == 'direct_neg':
            b = list(r.body) + [Neg(h.rel, [AWild()] * n)]
            out.append(('unstratifiable', 'rule %d negates its own head relation %s' % (i, h.rel), _with_rule(prog, i, _clone_rule(r, body=b)).text()))
        elif shape == 'direct_agg':
            b = list(r.body) + [Agg('cnt_v', 'count', [], h.rel, [AWild()] * n, None, '(cnt_v as i32)', int)]
            out.append(('unstratifiable', 'rule %d aggregates its own head relation %s' % (i, h.rel), _with_rule(prog, i, _clone_rule(r, body=b)).text()))
        elif shape == 'via_rule':
            aux = Rel('aux_cyc', [T.I32])
            b = list(r.body) + [Neg('aux_cyc', [AExpr(K(0))])]
            extra = Rule([Head('aux_cyc', [K(0)])], [Clause(h.rel, [AWild()] * n)])
            out.append(('unstratifiable', 'rule %d negates aux_cyc, which is derived from %s' % (i, h.rel), _with_rule(prog, i, _clone_rule(r, body=b), [aux], [extra]).text()))
        elif shape == 'via_multihead':
            aux = Rel('aux_cyc', [T.I32])
            b = list(r.body) + [Agg(None, 'not', [], 'aux_cyc', [AExpr(K(1))])]
            extra = Rule([Head('aux_cyc', [K(0)]), Head('aux_other', [K(0)])], [Clause(h.rel, [AWild()] * n)], brace=True)
            out.append(('unstratifiable', 'rule %d negates aux_cyc, a head of a multi-head rule reading %s' % (i, h.rel),
                        _with_rule(prog, i, _clone_rule(r, body=b), [aux, Rel('aux_other', [T.I32])], [extra]).text()))
        else:
            auxs = [Rel('aux_c%d' % k, [T.I32]) for k in range(3)]
            b = list(r.body) + [Neg('aux_c2', [AWild()])]
            extra = [Rule([Head('aux_c0', [K(0)])], [Clause(h.rel, [AWild()] * n)]),
                     Rule([Head('aux_c1', [V('x')])], [Clause('aux_c0', [AVar('x')])]),
                     Rule([Head('aux_c2', [V('x')])], [Clause('aux_c1', [AVar('x')])])]
            out.append(('unstratifiable', 'rule %d negates aux_c2 at the end of a chain of 3 relations starting from %s' % (i, h.rel),
                        _with_rule(prog, i, _clone_rule(r, body=b), auxs, extra).text()))
    # ---- rebinding a bound variable
    for i in pick_rules(per_kind + 1):
        r = prog.rules[i]
        bv = [v for v in rule_bound_vars(r)]
        if not bv:
            continue
        v = rng.choice(bv)
        how = rng.choice(['let', 'for', 'iflet', 'agg', 'clause_cond'])
        if how == 'let':
            b = list(r.body) + [Let(v, K(1))]
        elif how == 'for':
            b = list(r.body) + [For(v, Range(K(0), K(2)))]
        elif how == 'iflet':
            b = list(r.body) + [IfLet(v, SomeE(K(1)))]
        elif how == 'agg':
            rel0 = prog.rels[0]
            b = list(r.body) + [Agg(v, 'count', [], rel0.name, [AWild()] * len(rel0.tys))]
        else:
            cl = [k for k, it in enumerate(r.body) if isinstance(it, Clause)]
            if not cl:
                continue
            k = cl[-1]
            it = r.body[k]
            b = list(r.body)
            b[k] = Clause(it.rel, it.args, list(it.conds) + [Let(v, K(1))])
        out.append(('rebind', 'rule %d rebinds the bound variable %s with %s' % (i, v, how), _with_rule(prog, i, _clone_rule(r, body=b)).text()))
    base = prog.text()
    lines = base.split('\n')
    # ---- provider on a lattice / two ds attributes
    lat = [k for k, l in enumerate(lines) if l.strip().startswith('lattice ')]
    rel = [k for k, l in enumerate(lines) if l.strip().startswith('relation ')]
    if lat:
        k = rng.choice(lat)
        l2 = list(lines)
        l2[k] = '   #[ds(ascent::rel)] ' + lines[k].strip()
        out.append(('ds_on_lattice', 'data structure provider attached to a lattice', '\n'.join(l2)))
    else:
        out.append(('ds_on_lattice', 'data structure provider attached to a (new) lattice', base + '\n   #[ds(ascent::rel)] lattice extra_lat(i32, i32);'))
    if rel:
        k = rng.choice(rel)
        l2 = list(lines)
        l2[k] = '   #[ds(ascent::rel)] #[ds(ascent::rel)] ' + lines[k].strip()
        out.append(('two_ds', 'two ds attributes on one relation', '\n'.join(l2)))
    # ---- unknown attributes
    out.append(('unknown_attr', 'unknown inner attribute', '   #![no_such_ascent_attribute]\n' + base))
    out.append(('unknown_attr', 'known inner attribute with an argument', '   #![measure_rule_times(yes)]\n' + base))
    # a path-qualified name is not one of the recognised attributes either (it would be dropped silently: nothing forwards program-level attributes)
    out.append(('unknown_attr_path', 'recognised inner attribute written with a path', '   #![ascent::measure_rule_times]\n' + base))
    out.append(('unknown_attr_path', 'recognised inner attribute written with a leading ::', '   #![::generate_run_timeout]\n' + base))
    out.append(('unknown_attr_path', 'tool attribute at program level', '   #![rustfmt::skip]\n' + base))
    rl = [k for k, l in enumerate(lines) if '<--' in l]
    if rl:
        k = rng.choice(rl)
        l2 = list(lines)
        l2[k] = '   #[inline] ' + lines[k].strip()
        out.append(('unknown_attr', 'attribute on a rule', '\n'.join(l2)))
    if rel:
        k = rng.choice(rel)
        l2 = list(lines)
        l2[k] = '   #[no_such_attribute_anywhere] ' + lines[k].strip()
        out.append(('unknown_attr', 'unknown attribute on a relation', '\n'.join(l2)))
    out.append(('unknown_attr', 'attribute on a macro definition', base + '\n   #[inline] macro mm($x: ident) { %s($x) }' % ([r.name for r in prog.rels if len(r.tys) == 1] or ['nothing'])[0]))
    # ---- self-referential macro
    r1 = [r for r in prog.rels if len(r.tys) == 2 and all(t is T.I32 for t in r.tys) and not r.is_lat]
    if r1:
        e = r1[0].name
        out.append(('recursive_macro', 'directly self-referential macro',
                    base + '\n   macro selfm($x: ident, $y: ident) { %s($x, zq), selfm!(zq, $y) }\n   %s(aq, bq) <-- selfm!(aq, bq);' % (e, e)))
        out.append(('recursive_macro', 'mutually recursive macros',
                    base + '\n   macro m_one($x: ident) { %s($x, zq), m_two!(zq) }\n   macro m_two($x: ident) { %s($x, wq), m_one!(wq) }\n   %s(aq, aq) <-- m_one!(aq);' % (e, e, e)))
    return out


def serial_only(prog):
    """mutations that are ill-formed only under the serial macros"""
    return [('par_attr_in_serial', '#![inter_rule_parallelism] in a serial macro', '   #![inter_rule_parallelism]\n' + prog.text())]
