"""Emits Rust: one module per program variant (the Ascent program + its vmon::Prog adapter) and the
cargo workspace of shard crates that the driver builds against /repo's current working tree."""
import os
import shutil

from .ast import *
from . import types as T

REPO = os.environ.get('VERIF_REPO', '/repo')
VERIF = os.path.dirname(os.path.dirname(os.path.abspath(__file__)))

MACRO_OF = {'ascent': 'ascent', 'ascent_par': 'ascent_par', 'ascent_run': 'ascent_run', 'ascent_run_par': 'ascent_run_par'}


def tuple_expr(parts):
    if len(parts) == 0:
        return '()'
    if len(parts) == 1:
        return '(%s,)' % parts[0]
    return '(%s)' % ', '.join(parts)


def tuple_ty(rel):
    return tuple_expr([getattr(t, 'concrete', t.rust) for t in rel.tys])


def row_parse_expr(rel, rowvar='row'):
    return tuple_expr(['<%s as vmon::VVal>::vparse(&%s[%d])' % (getattr(t, 'concrete', t.rust), rowvar, i) for i, t in enumerate(rel.tys)])


def row_show_expr(rel, tvar='t'):
    return 'vec![%s]' % ', '.join('vmon::VVal::vshow(&%s.%d)' % (tvar, i) for i in range(len(rel.tys)))


class Variant:
    """one compiled form of a program"""

    def __init__(self, name, prog, kind='ascent', extra_attrs=(), struct_sig=None, prog_ty='AscentProgram',
                 prog_ty_inst=None, timeout=False, prelude='', body_text=None, pre_items='', load_rels=None,
                 dump_rels=None, init_from_input=(), run_locals=None):
        self.name = name
        self.prog = prog
        self.kind = kind
        self.extra_attrs = list(extra_attrs)
        self.struct_sig = struct_sig
        self.prog_ty = prog_ty
        self.prog_ty_inst = prog_ty_inst or prog_ty     # e.g. "P::<i32>"
        self.timeout = timeout
        self.prelude = prelude
        self.body_text = body_text      # overrides prog.text(...) (used for include_source packaging)
        self.pre_items = pre_items      # Rust items before the macro invocation (ascent_source! blocks, fns)
        self.load_rels = load_rels      # relation names that accept input rows (default: all plain ones)
        self.dump_rels = dump_rels
        self.init_from_input = list(init_from_input)  # relations initialised as `relation r(..) = <input>` (ascent_run)
        self.run_locals = run_locals or {}   # name -> rust expr of locals captured by ascent_run!

    @property
    def par(self):
        return self.kind in ('ascent_par', 'ascent_run_par')

    @property
    def is_run(self):
        return self.kind in ('ascent_run', 'ascent_run_par')

    def loadable(self):
        names = []
        for r in self.prog.rels:
            if r.ds is None and r.name not in names:
                names.append(r.name)
        if self.load_rels is not None:
            names = [n for n in names if n in self.load_rels]
        return [self.prog.rel(n) for n in names]

    def dumpable(self):
        names = []
        for r in self.prog.rels:
            if r.ds is None and r.name not in names:
                names.append(r.name)
        if self.dump_rels is not None:
            names = [n for n in names if n in self.dump_rels]
        return [self.prog.rel(n) for n in names]


NAMED_CONSTS = ' '.join('pub const VC%d: i32 = %d;' % (i, i) for i in range(8))     # bare-identifier constants for aggregated / negated clauses


def emit_variant(v):
    prog = v.prog
    macro = MACRO_OF[v.kind]
    attrs = list(v.extra_attrs)
    if v.timeout and 'generate_run_timeout' not in attrs and 'generate_run_timeout' not in prog.attrs:
        attrs.append('generate_run_timeout')
    out = []
    out.append('pub mod %s {' % v.name)
    out.append('   #![allow(warnings)]')
    out.append('   use ascent::{ascent, ascent_par, ascent_run, ascent_run_par, ascent_source};')
    out.append('   use ascent::Dual;')
    out.append('   use ascent_byods_rels::{eqrel, trrel, trrel_uf};')
    out.append('   ' + NAMED_CONSTS)
    if v.prelude:
        out.append(v.prelude)
    if v.pre_items:
        out.append(v.pre_items)
    if not v.is_run:
        text = v.body_text if v.body_text is not None else prog.text(extra_attrs=attrs, struct_sig=v.struct_sig)
        out.append('   %s! {' % macro)
        out.append(text)
        out.append('   }')
        out.append('   pub struct W(pub %s);' % v.prog_ty_inst.replace('::<', '<'))
        out.append('   impl vmon::Prog for W {')
        out.append('      fn new() -> Self { W(<%s>::default()) }' % v.prog_ty_inst.replace('::<', '<'))
        out.append('      fn load(&mut self, rel: &str, row: &[&str]) {')
        out.append('         match rel {')
        for r in v.loadable():
            val = row_parse_expr(r)
            if v.par and r.is_lat:
                val = 'std::sync::RwLock::new(%s)' % val
            out.append('            "%s" => { self.0.%s.push(%s); },' % (r.name, r.name, val))
            out.append('            "%s!clear" => { self.0.%s = Default::default(); },' % (r.name, r.name))
        out.append('            _ => panic!("load: relation {} does not take input", rel),')
        out.append('         }')
        out.append('      }')
        out.append('      fn run(&mut self) { self.0.run(); }')
        if v.timeout:
            out.append('      fn run_timeout(&mut self, d: std::time::Duration) -> Option<bool> { Some(self.0.run_timeout(d)) }')
        out.append('      fn dump(&self, out: &mut vmon::Dump) {')
        for r in v.dumpable():
            if v.par and r.is_lat:
                out.append('         out.rel("%s", self.0.%s.iter().map(|t| { let t = t.read().unwrap(); %s }));' % (r.name, r.name, row_show_expr(r)))
            else:
                out.append('         out.rel("%s", self.0.%s.iter().map(|t| %s));' % (r.name, r.name, row_show_expr(r)))
        out.append('      }')
        out.append('      fn scc_summary(&self) -> String { self.0.scc_times_summary() }')
        out.append('      fn sizes_summary(&self) -> String { self.0.relation_sizes_summary() }')
        out.append('   }')
    else:
        # ascent_run!: inputs enter through `relation r(..) = <local>;`
        out.append('   pub struct W { inp: vmon::RawInput, out: Option<vmon::Dump>, scc: String, sizes: String }')
        out.append('   impl vmon::Prog for W {')
        out.append('      fn new() -> Self { W { inp: Default::default(), out: None, scc: String::new(), sizes: String::new() } }')
        out.append('      fn load(&mut self, rel: &str, row: &[&str]) { self.inp.push(rel, row); }')
        out.append('      fn run(&mut self) {')
        init_texts = {}
        for r in v.loadable():
            val = row_parse_expr(r)
            if v.par and r.is_lat:
                out.append('         let __in_%s: ascent::boxcar::Vec<std::sync::RwLock<%s>> = self.inp.rows_of("%s").map(|row| std::sync::RwLock::new(%s)).collect();' % (r.name, tuple_ty(r), r.name, val))
            elif v.par:
                out.append('         let __in_%s: ascent::boxcar::Vec<%s> = self.inp.rows_of("%s").map(|row| %s).collect();' % (r.name, tuple_ty(r), r.name, val))
            else:
                out.append('         let __in_%s: Vec<%s> = self.inp.rows_of("%s").map(|row| %s).collect();' % (r.name, tuple_ty(r), r.name, val))
            init_texts[r.name] = '__in_%s' % r.name
        for name, expr in v.run_locals.items():
            out.append('         let %s = %s;' % (name, expr))
        text = v.body_text if v.body_text is not None else prog.text(extra_attrs=attrs, struct_sig=v.struct_sig, init_texts=init_texts, indent='            ')
        out.append('         let res = %s! {' % macro)
        out.append(text)
        out.append('         };')
        out.append('         let mut d = vmon::Dump::new();')
        for r in v.dumpable():
            if v.par and r.is_lat:
                out.append('         d.rel("%s", res.%s.iter().map(|t| { let t = t.read().unwrap(); %s }));' % (r.name, r.name, row_show_expr(r)))
            else:
                out.append('         d.rel("%s", res.%s.iter().map(|t| %s));' % (r.name, r.name, row_show_expr(r)))
        out.append('         self.scc = res.scc_times_summary();')
        out.append('         self.sizes = res.relation_sizes_summary();')
        out.append('         self.out = Some(d);')
        out.append('      }')
        out.append('      fn dump(&self, out: &mut vmon::Dump) { if let Some(d) = &self.out { out.rels.extend(d.rels.iter().cloned()); } }')
        out.append('      fn scc_summary(&self) -> String { self.scc.clone() }')
        out.append('      fn sizes_summary(&self) -> String { self.sizes.clone() }')
        out.append('   }')
    out.append('}')
    return '\n'.join(out)


def write_workspace(wdir, shards, features=(), opt_level=0, debug_assertions=True):
    """shards: list of lists of (progname, module_text, type_path). Creates wdir/shardN crates."""
    if os.path.exists(wdir):
        shutil.rmtree(wdir)
    os.makedirs(wdir)
    members = []
    feat = ', '.join('"%s"' % f for f in (['verif-hooks'] + list(features)))
    for si, shard in enumerate(shards):
        name = 'shard%d' % si
        members.append(name)
        d = os.path.join(wdir, name)
        os.makedirs(os.path.join(d, 'src'))
        with open(os.path.join(d, 'Cargo.toml'), 'w') as f:
            f.write('[package]\nname = "%s"\nversion = "0.1.0"\nedition = "2021"\n\n[dependencies]\n' % name)
            f.write('vmon = { path = "%s/harness/vmon" }\n' % VERIF)
            f.write('ascent = { path = "%s/ascent", features = [%s] }\n' % (REPO, feat))
            f.write('ascent-byods-rels = { path = "%s/byods/ascent-byods-rels", features = ["verif-hooks"] }\n' % REPO)
        mods, table = [], []
        for pi, (progname, text, typath) in enumerate(shard):
            fname = 'p%d.rs' % pi
            with open(os.path.join(d, 'src', fname), 'w') as f:
                f.write(text + '\n')
            mods.append('#[path = "%s"] mod p%d;' % (fname, pi))
            table.append('      ("%s", vmon::run_job::<p%d::%s> as vmon::Runner),' % (progname, pi, typath))
        with open(os.path.join(d, 'src', 'main.rs'), 'w') as f:
            f.write('#![allow(warnings)]\n' + '\n'.join(mods) + '\nfn main() {\n   vmon::main_with(&[\n' + '\n'.join(table) + '\n   ]);\n}\n')
    with open(os.path.join(wdir, 'Cargo.toml'), 'w') as f:
        f.write('[workspace]\nresolver = "2"\nmembers = [%s]\n\n' % ', '.join('"%s"' % m for m in members))
        f.write('[profile.dev]\ndebug = 0\nincremental = false\nopt-level = %d\ndebug-assertions = %s\noverflow-checks = true\n' % (opt_level, 'true' if debug_assertions else 'false'))
    lock = os.path.join(REPO, 'Cargo.lock')
    if os.path.exists(lock):
        shutil.copy(lock, os.path.join(wdir, 'Cargo.lock'))
    return members
