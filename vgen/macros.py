"""In-program macros (C08): generator of macro-using programs and an independent expander.

Inside a macro body a parameter `$p` is the variable named '$p' (AVar('$p') in argument position, V('$p') inside
expressions).  The expander implements the documented meaning: parameters are substituted, every other identifier
introduced by the macro body is fresh per invocation."""
import random

from .ast import *
from . import types as T
from .gen import check_scoping, int_expr

NAMES = ['x', 'y', 'z', 'a', 'b', 'n']     # deliberately shared by macro locals and call sites
# macro-local names also come in pairs that differ by a trailing digit only (x / x1 / x11): a renaming scheme that appends
# counters to identifiers must not make the k-th copy of `x` meet a copy of `x<k>`
DIGIT_BASES = ['x', 'y', 'z', 'n']
SITE_NAMES = NAMES + ['x1', 'y1']


# ------------------------------------------------------------------------------------------------
# substitution


def subst_expr(e, m):
    if isinstance(e, V):
        r = m.get(e.name)
        if r is None:
            return e
        if isinstance(r, PlainAdd):
            return Paren(r)          # an `expr` argument is substituted as ONE expression
        return V(r) if isinstance(r, str) else r
    if isinstance(e, PlainAdd):
        return PlainAdd(subst_expr(e.a, m), subst_expr(e.b, m))
    if isinstance(e, Paren):
        return Paren(subst_expr(e.e, m))
    if isinstance(e, K) or isinstance(e, Raw):
        return e
    if isinstance(e, Bin):
        return Bin(e.op, subst_expr(e.a, m), subst_expr(e.b, m), e.cap)
    if isinstance(e, SatAdd):
        return SatAdd(subst_expr(e.a, m), subst_expr(e.b, m), e.cap)
    if isinstance(e, MinMax):
        return MinMax(e.which, subst_expr(e.a, m), subst_expr(e.b, m))
    if isinstance(e, ClosureApp):
        r = m.get(e.var)
        if isinstance(r, str):
            return ClosureApp(r, subst_expr(e.body, m), subst_expr(e.arg, m))
        return ClosureApp(e.var, subst_expr(e.body, {k: v for k, v in m.items() if k != e.var}), subst_expr(e.arg, m))
    if isinstance(e, MatchE):
        r = m.get(e.var)
        if isinstance(r, str):
            return MatchE(subst_expr(e.scrut, m), e.k, subst_expr(e.e0, m), r, subst_expr(e.e1, m))
        return MatchE(subst_expr(e.scrut, m), e.k, subst_expr(e.e0, m), e.var, subst_expr(e.e1, {k: v for k, v in m.items() if k != e.var}))
    if isinstance(e, LetIn):
        r = m.get(e.var)
        if isinstance(r, str):
            return LetIn(r, subst_expr(e.init, m), subst_expr(e.body, m))
        inner = {k: v for k, v in m.items() if k != e.var}      # shadowed inside the block body
        return LetIn(e.var, subst_expr(e.init, m), subst_expr(e.body, inner))
    if isinstance(e, Cmp):
        return Cmp(e.op, subst_expr(e.a, m), subst_expr(e.b, m))
    if isinstance(e, BoolOp):
        return BoolOp(e.op, subst_expr(e.a, m), subst_expr(e.b, m) if e.b else None)
    if isinstance(e, MkOpt):
        return MkOpt(subst_expr(e.cond, m), subst_expr(e.e, m))
    if isinstance(e, Wrap):
        return Wrap(e.fmt, subst_expr(e.e, m), e.conv)
    if isinstance(e, Range):
        return Range(subst_expr(e.a, m), subst_expr(e.b, m))
    if isinstance(e, ListE):
        return ListE([subst_expr(x, m) for x in e.es])
    raise ValueError('subst_expr: %r' % e)


def subst_arg(a, m):
    if isinstance(a, AVar):
        r = m.get(a.name)
        if r is None:
            return a
        if isinstance(r, str):
            return AVar(r)
        if isinstance(r, V):
            return AVar(r.name)         # an identifier passed for an expr parameter is still an identifier
        return AExpr(r)
    if isinstance(a, AExpr):
        return AExpr(subst_expr(a.e, m))
    if isinstance(a, APat):
        r = m.get(a.var)
        return APat(a.kind, r if isinstance(r, str) else a.var)
    return a


def subst_item(it, m):
    if isinstance(it, Clause):
        return Clause(it.rel, [subst_arg(a, m) for a in it.args], [subst_item(c, m) for c in it.conds])
    if isinstance(it, Neg):
        return Neg(it.rel, [subst_arg(a, m) for a in it.args])
    if isinstance(it, If):
        return If(subst_expr(it.e, m))
    if isinstance(it, LetTup):
        return LetTup([(m.get(v) if isinstance(m.get(v), str) else v) for v in it.vars_], [subst_expr(e, m) for e in it.es])
    if isinstance(it, Let):
        r = m.get(it.var)
        return Let(r if isinstance(r, str) else it.var, subst_expr(it.e, m))
    if isinstance(it, IfLet):
        r = m.get(it.var)
        return IfLet(r if isinstance(r, str) else it.var, subst_expr(it.e, m), it.pat)
    if isinstance(it, For):
        r = m.get(it.var)
        return For(r if isinstance(r, str) else it.var, subst_expr(it.e, m))
    if isinstance(it, Agg):
        def nm(v):
            r = m.get(v)
            return r if isinstance(r, str) else v
        res = nm(it.res) if it.res else None
        read = it.res_read
        if read and it.res:
            import re
            read = re.sub(r'\b%s\b' % re.escape(it.res), res, read)
        return Agg(res, it.agg, [nm(b) for b in it.bound], it.rel, [subst_arg(a, m) for a in it.args], it.param, read, it.res_conv)
    if isinstance(it, Disj):
        return Disj([[subst_item(i, m) for i in alt] for alt in it.alts])
    if isinstance(it, MacroCall):
        return MacroCall(it.name, [subst_macro_arg(a, m) for a in it.args])
    raise ValueError('subst_item: %r' % it)


def subst_macro_arg(a, m):
    if isinstance(a, V):
        r = m.get(a.name)
        if r is None:
            return a
        return V(r) if isinstance(r, str) else r
    return subst_expr(a, m)


def expr_binders(e, acc):
    """identifiers bound INSIDE an expression (closure parameters, block lets, match arms): introduced by whoever wrote the expression"""
    if isinstance(e, (ClosureApp, LetIn, MatchE)):
        acc.add(e.var)
    for name in ('a', 'b', 'e', 'cond', 'init', 'body', 'arg', 'scrut', 'e0', 'e1'):
        sub = getattr(e, name, None)
        if isinstance(sub, Expr):
            expr_binders(sub, acc)
    for sub in getattr(e, 'es', None) or []:
        if isinstance(sub, Expr):
            expr_binders(sub, acc)


def item_idents(it, acc):
    """identifiers (variables) occurring in an item, excluding parameters"""
    def ev(e):
        for v in e.vars():
            acc.add(v)
        expr_binders(e, acc)
    if isinstance(it, Clause):
        for a in it.args:
            if isinstance(a, AVar):
                acc.add(a.name)
            elif isinstance(a, AExpr):
                ev(a.e)
            elif isinstance(a, APat):
                acc.add(a.var)
        for c in it.conds:
            item_idents(c, acc)
    elif isinstance(it, Neg):
        for a in it.args:
            if isinstance(a, AVar):
                acc.add(a.name)
            elif isinstance(a, AExpr):
                ev(a.e)
    elif isinstance(it, If):
        ev(it.e)
    elif isinstance(it, LetTup):
        for v in it.vars_:
            acc.add(v)
        for e in it.es:
            ev(e)
    elif isinstance(it, (Let, IfLet, For)):
        acc.add(it.var)
        ev(it.e)
    elif isinstance(it, Agg):
        if it.res:
            acc.add(it.res)
        for b in it.bound:
            acc.add(b)
        for a in it.args:
            if isinstance(a, AVar):
                acc.add(a.name)
            elif isinstance(a, AExpr):
                ev(a.e)
    elif isinstance(it, Disj):
        for alt in it.alts:
            for i in alt:
                item_idents(i, acc)
    elif isinstance(it, MacroCall):
        for a in it.args:
            ev(a)


class Expander:
    def __init__(self, macros):
        self.macros = {m.name: m for m in macros}
        self.counter = 0

    def expand_call(self, call, depth=0):
        if depth > 20:
            raise RecursionError('macro recursion')
        md = self.macros[call.name]
        self.counter += 1
        inv = self.counter
        m = {}
        for (pname, kind), arg in zip(md.params, call.args):
            if kind == 'ident':
                assert isinstance(arg, V), 'ident parameter needs an identifier'
                m['$' + pname] = arg.name
            else:
                m['$' + pname] = arg
        items = md.body if md.body is not None else md.heads
        # identifiers introduced by the macro body: fresh per invocation
        locs = set()
        if md.body is not None:
            for it in md.body:
                item_idents(it, locs)
        locs = set(v for v in locs if not v.startswith('$'))
        for v in sorted(locs):
            m[v] = 'm%d_%s' % (inv, v)
        out = []
        if md.body is not None:
            for it in md.body:
                it2 = subst_item(it, m)
                out += self.expand_item(it2, depth + 1)
        else:
            for h in md.heads:
                if isinstance(h, MacroCall):
                    out += self.expand_call(MacroCall(h.name, [subst_macro_arg(a, m) for a in h.args]), depth + 1)
                else:
                    out.append(Head(h.rel, [subst_expr(a, m) for a in h.args]))
        return out

    def expand_item(self, it, depth=0):
        if isinstance(it, MacroCall):
            return self.expand_call(it, depth)
        if isinstance(it, Disj):
            return [Disj([[x for i in alt for x in self.expand_item(i, depth)] for alt in it.alts])]
        return [it]

    def expand_program(self, prog):
        rules = []
        for r in prog.rules:
            body = []
            for it in r.body:
                body += self.expand_item(it)
            heads = []
            for h in r.heads:
                if isinstance(h, MacroCall):
                    heads += self.expand_call(h)
                else:
                    heads.append(h)
            rules.append(Rule(heads, body, brace=False))
        return Program(prog.rels, rules, [], prog.attrs)


# ------------------------------------------------------------------------------------------------
# generator


def gen_macro_program(rng, dom=4):
    rels = [Rel('e', [T.I32, T.I32]), Rel('f', [T.I32, T.I32]), Rel('g', [T.I32]), Rel('t', [T.I32, T.I32, T.I32]), Rel('po', [T.I32, T.OptTy(T.I32)])]
    nout = rng.randint(2, 4)
    outs = [Rel('o%d' % i, [T.I32] * rng.choice([1, 2, 2, 3])) for i in range(nout)]
    rels += outs
    inputs = ['e', 'f', 'g', 't']          # relations of plain i32 columns, used by the clause generators
    all_inputs = inputs + ['po']
    byname = {r.name: r for r in rels}
    macros = []

    def gen_body_macro(idx):
        nparams = rng.randint(1, 3)
        params = [('p%d' % i, rng.choice(['ident', 'expr', 'expr'])) for i in range(nparams)]
        nlocals = rng.randint(0, 3)
        if nlocals >= 2 and rng.random() < 0.5:
            b = rng.choice(DIGIT_BASES)
            locs = ([b, b + '1', b + rng.choice(['2', '11'])])[:nlocals]
        elif nlocals == 1 and rng.random() < 0.3:
            locs = [rng.choice(DIGIT_BASES) + '1']
        else:
            locs = rng.sample(NAMES, nlocals)
        body = []
        avail = ['$' + p for p, _ in params] + locs
        bound_locs = []
        nitems = rng.randint(1, 2)
        used_params = set()
        for ii in range(nitems):
            rn = rng.choice(inputs if rng.random() < 0.8 else [o.name for o in outs[:1]])
            args = []
            for _ in byname[rn].tys:
                r = rng.random()
                if r < 0.45:
                    p = rng.choice(params)[0]
                    used_params.add(p)
                    args.append(AVar('$' + p))
                elif r < 0.8 and locs:
                    l = rng.choice(locs)
                    args.append(AVar(l))
                    if l not in bound_locs:
                        bound_locs.append(l)
                elif r < 0.9:
                    args.append(AWild())
                else:
                    args.append(AExpr(K(rng.randrange(dom))))
            conds = []
            if bound_locs and rng.random() < 0.4:
                l = rng.choice(bound_locs)
                lhs = V(l)
                r2 = rng.random()
                if r2 < 0.35:
                    # a block that re-binds the macro-local name, using the macro-local in its own initialiser
                    lhs = LetIn(l, Bin('+', V(l), K(rng.randrange(1, dom)), dom), Bin('+', V(l), V(rng.choice(bound_locs)), dom))
                elif r2 < 0.5:
                    lhs = int_expr(rng, bound_locs, dom)
                conds.append(If(Cmp(rng.choice(['!=', '<', '<=']), lhs, K(rng.randrange(dom)))))
            body.append(Clause(rn, args, conds))
        # every parameter must be mentioned (an unused ident parameter would be a call-site variable that is never bound)
        for p, kind in params:
            if p not in used_params:
                body.append(Clause('g', [AVar('$' + p)]))
        if bound_locs and rng.random() < 0.3:
            body.append(Neg('g', [AVar(rng.choice(bound_locs))]))
        # the other kinds of body items, each binding a further macro-local identifier: ?pattern arguments, conditions attached to
        # clauses (let / if let), stand-alone let / if let / if, generators and aggregations
        def fresh_local():
            cands = [n for n in NAMES + [b + d for b in DIGIT_BASES for d in ('1', '2')] if n not in locs]
            l = rng.choice(cands)
            locs.append(l)
            return l

        def some_var():
            if bound_locs and rng.random() < 0.75:
                return V(rng.choice(bound_locs))
            ps = [p for p in used_params]
            return V('$' + rng.choice(ps)) if ps else K(rng.randrange(dom))
        for _ in range(rng.choice([0, 0, 1, 1, 2])):
            kind = rng.choice(['pat', 'attached', 'let', 'iflet', 'if', 'for', 'agg', 'paramexpr'])
            if kind == 'paramexpr':
                # an `expr` parameter inside a larger expression whose operator binds tighter than a `+` in the argument
                eps = [p for p, k in params if k == 'expr' and p in used_params]
                if eps:
                    pe = V('$' + rng.choice(eps))
                    body.append(If(Cmp(rng.choice(['<', '!=', '<=', '==', '>=']), Bin('*', pe, K(rng.randrange(2, 4)), dom + 3), K(rng.randrange(dom + 3)))))
                continue
            if kind == 'pat':
                l = fresh_local()
                key = some_var()
                body.append(Clause('po', [AVar(key.name) if isinstance(key, V) else AExpr(key), APat('Some', l)]))
                bound_locs.append(l)
            elif kind == 'attached' and bound_locs:
                l = fresh_local()
                src = rng.choice(bound_locs)
                cond = Let(l, Bin('+', V(src), K(rng.randrange(1, dom)), dom)) if rng.random() < 0.5 else \
                    IfLet(l, MkOpt(Cmp(rng.choice(['<', '!=', '>=']), V(src), K(rng.randrange(dom))), Bin('+', V(src), K(1), dom)))
                for it in body:
                    if isinstance(it, Clause) and src in [a.name for a in it.args if isinstance(a, AVar)] + [a.var for a in it.args if isinstance(a, APat)]:
                        it.conds.append(cond)
                        bound_locs.append(l)
                        break
                else:
                    locs.remove(l)
            elif kind == 'let':
                l = fresh_local()
                if rng.random() < 0.4:
                    l2 = fresh_local()
                    body.append(LetTup([l, l2], [Bin('+', some_var(), K(rng.randrange(dom)), dom), some_var()]))
                    bound_locs.append(l2)
                else:
                    body.append(Let(l, Bin(rng.choice(['+', '*']), some_var(), K(rng.randrange(1, dom)), dom)))
                bound_locs.append(l)
            elif kind == 'iflet':
                l = fresh_local()
                v = some_var()
                body.append(IfLet(l, MkOpt(Cmp(rng.choice(['<', '!=', '>=']), v, K(rng.randrange(dom))), Bin('*', v, K(2), dom))))
                bound_locs.append(l)
            elif kind == 'if':
                lhs = some_var()
                if rng.random() < 0.5:
                    lhs = Bin('*', lhs, K(rng.randrange(2, 4)), dom + 3)       # binds tighter than a `+` inside an argument
                body.append(If(Cmp(rng.choice(['<', '!=', '<=', '==']), lhs, some_var())))
            elif kind == 'for':
                l = fresh_local()
                rg = Range(K(0), Bin('+', some_var(), K(1), 3)) if rng.random() < 0.5 else Range(K(0), some_var())      # `0..n`: an identifier right after `..`
                if rng.random() < 0.5:
                    # the same range inside a Rust macro: hygiene has to rename identifiers inside the raw tokens of `vec![..]`
                    rg = Wrap('vec![%s].into_iter().flatten()', rg)
                body.append(For(l, rg))
                bound_locs.append(l)
            elif kind == 'agg':
                res, bv = fresh_local(), fresh_local()
                key = some_var()
                body.append(Agg(res, rng.choice(['min', 'max']), [bv], 'e', [AVar(key.name) if isinstance(key, V) else AExpr(key), AVar(bv)]))
                body.append(If(Cmp(rng.choice(['<', '>=', '!=']), V(res), K(rng.randrange(dom)))))
                bound_locs.append(res)
        if idx > 0 and rng.random() < 0.5:
            # nested invocation: arguments are parameters / bound locals
            callee = rng.choice(macros[:idx])
            if callee.body is not None:
                args = []
                ok = True
                for (pn, kind) in callee.params:
                    cands = [V('$' + p) for p, k in params if (kind == 'expr' or k == 'ident')] + [V(l) for l in bound_locs]
                    # a local that nothing in this body binds: it is bound by the nested invocation only (the callee mentions
                    # each of its parameters in a clause; where that does not bind it first, the expansion is ill-scoped and dropped)
                    fresh = [l for l in locs if l not in bound_locs] or [n for n in NAMES if n not in locs][:1]
                    if fresh and (not cands or rng.random() < 0.35):
                        l = rng.choice(fresh)
                        if l not in locs:
                            locs.append(l)
                        bound_locs.append(l)
                        args.append(V(l))
                        continue
                    if not cands:
                        ok = False
                        break
                    args.append(rng.choice(cands))
                if ok:
                    body.append(MacroCall(callee.name, args))
        if bound_locs and rng.random() < 0.3:
            # a generator over a range that ends in a macro-local variable, written inside a Rust macro: `for w in vec![0..n]...`
            cands = [n for n in NAMES + [b + d for b in DIGIT_BASES for d in ('1', '2')] if n not in locs]
            l = rng.choice(cands)
            locs.append(l)
            body.append(For(l, Wrap('vec![%s].into_iter().flatten()', Range(K(0), V(rng.choice(bound_locs))))))
            bound_locs.append(l)
        eps = [p for p, k in params if k == 'expr' and p in used_params]
        if eps and rng.random() < 0.35:
            pe = V('$' + rng.choice(eps))
            body.append(If(Cmp(rng.choice(['<', '!=', '<=', '>=']), Bin('*', pe, K(rng.randrange(2, 4)), dom + 3), K(rng.randrange(1, dom + 2)))))
        def repeatable(it):
            # an item that may occur twice on one path: it binds nothing through let / if let / ?pattern / for / agg
            if isinstance(it, (Neg, If)):
                return True
            return isinstance(it, Clause) and not any(isinstance(c, (Let, IfLet)) for c in it.conds) and not any(isinstance(a, APat) for a in it.args)
        if rng.random() < 0.2 and len(body) >= 2 and repeatable(body[0]) and repeatable(body[1]):
            body = [Disj([[body[0]], [body[0]] + body[1:2]])] + body[1:]
        return MacroDef('m%d' % idx, params, body=body)

    nmac = rng.randint(1, 3)
    for i in range(nmac):
        macros.append(gen_body_macro(i))
    # one head macro
    hm = None
    if rng.random() < 0.6:
        o1, o2 = rng.choice(outs), rng.choice(outs)
        np_ = 2
        heads = [Head(o1.name, [V('$h%d' % rng.randrange(np_)) for _ in o1.tys]), Head(o2.name, [V('$h%d' % rng.randrange(np_)) for _ in o2.tys])]
        hm = MacroDef('hm', [('h0', 'expr'), ('h1', 'expr')], heads=heads)
        macros.append(hm)
        if rng.random() < 0.4:
            o3 = rng.choice(outs)
            hm2 = MacroDef('hm2', [('q0', 'expr')], heads=[MacroCall('hm', [V('$q0'), V('$q0')]), Head(o3.name, [V('$q0') for _ in o3.tys])])
            macros.append(hm2)
    rules = []
    body_macros = [m for m in macros if m.body is not None]
    for ri in range(rng.randint(3, 7)):
        body = []
        bound = []
        for ci in range(rng.randint(1, 3)):
            if rng.random() < 0.7:
                md = rng.choice(body_macros)
                args = []
                for (pn, kind) in md.params:
                    if kind == 'ident' or rng.random() < 0.6:
                        if bound and rng.random() < 0.5:
                            v = rng.choice(bound)
                        else:
                            v = rng.choice(SITE_NAMES)
                            if v not in bound:
                                bound.append(v)
                        args.append(V(v))
                    elif bound and rng.random() < 0.4:
                        args.append(PlainAdd(V(rng.choice(bound)), K(rng.randrange(1, dom))))      # `a + 1`, no parentheses of its own
                    else:
                        args.append(int_expr(rng, bound, dom) if bound else K(rng.randrange(dom)))
                body.append(MacroCall(md.name, args))
            else:
                rn = rng.choice(inputs)
                args = []
                for _ in byname[rn].tys:
                    if bound and rng.random() < 0.4:
                        args.append(AVar(rng.choice(bound)))
                    else:
                        v = rng.choice(NAMES)
                        args.append(AVar(v))
                        if v not in bound:
                            bound.append(v)
                body.append(Clause(rn, args))
        if isinstance(body[0], MacroCall) and rng.random() < 0.5:
            # the same macro again after the (possible) disjunction: its locals get the same names in both expansions
            md0 = [m for m in body_macros if m.name == body[0].name][0]
            args = []
            for (pn, kind) in md0.params:
                v = rng.choice(bound) if bound and rng.random() < 0.6 else rng.choice(NAMES)
                if v not in bound:
                    bound.append(v)
                args.append(V(v))
            body.append(MacroCall(md0.name, args))
        if len(body) >= 2 and rng.random() < 0.5:
            # wrap the first item into a disjunction with a plain clause binding the same call-site variables; the remaining
            # items (often invocations of the same macro) follow the disjunction
            first = body[0]
            if isinstance(first, MacroCall):
                site = [a.name for a in first.args if isinstance(a, V)]
                if len(site) >= 1 and len(set(site)) == len(site):
                    alt_rel = 'g' if len(site) == 1 else ('e' if len(site) == 2 else ('t' if len(site) == 3 else None))
                    if alt_rel and all(isinstance(a, V) for a in first.args):
                        alt = Clause(alt_rel, [AVar(v) for v in site])
                        body = [Disj([[first], [alt]] if rng.random() < 0.5 else [[alt], [first]])] + body[1:]
        o = rng.choice(outs)
        if not bound:
            continue
        r = rng.random()
        if hm is not None and r < 0.35:
            name = 'hm2' if any(m.name == 'hm2' for m in macros) and rng.random() < 0.4 else 'hm'
            md = [m for m in macros if m.name == name][0]
            heads = [MacroCall(name, [V(rng.choice(bound)) if rng.random() < 0.8 else int_expr(rng, bound, dom) for _ in md.params])]
        else:
            heads = [Head(o.name, [V(rng.choice(bound)) for _ in o.tys])]
        # probe head: the rule's own join result projected on its call-site variables stays observable even when the shared output
        # relations are saturated by other rules
        qn = 'q%d' % ri
        rels.append(Rel(qn, [T.I32] * len(bound[:4])))
        heads.append(Head(qn, [V(v) for v in bound[:4]]))
        rules.append(Rule(heads, body))
    prog = Program(rels, rules, macros)
    return prog, all_inputs


# ------------------------------------------------------------------------------------------------
# consistent renaming of variables in a program with macros (C06)

RENAME_POOL = ['x', 'x1', 'x2', 'x11', 'y', 'y1', 'y2', 'z', 'z1', 'a', 'a1', 'b', 'n', 'n1', 'mid', 'w', 'w1', 'k', 'k1', 'q']


def rename_program(prog, rng, pool=RENAME_POOL):
    """every macro's local identifiers and every rule's variables renamed injectively (per macro / per rule) into `pool`"""
    def inj(names):
        names = sorted(names)
        if rng.random() < 0.7:
            # one family of spellings that differ by trailing digits only
            b = rng.choice(['x', 'y', 'v', 'n'])
            p = [b, b + '1', b + '2', b + '11', b + '12', b + '21', b + '3', b + '111']
            head, tail = p[:max(2, len(names))], p[max(2, len(names)):]
            rng.shuffle(head)
            p = head + tail
        else:
            p = list(pool)
            rng.shuffle(p)
        return {v: (p[i] if i < len(p) else 'vv%d' % i) for i, v in enumerate(names)}
    macros = []
    for md in prog.macros:
        if md.body is None:
            macros.append(md)
            continue
        locs = set()
        for it in md.body:
            item_idents(it, locs)
        m = inj(v for v in locs if not v.startswith('$'))
        macros.append(MacroDef(md.name, md.params, body=[subst_item(it, m) for it in md.body]))
    rules = []
    for r in prog.rules:
        vs = set()
        for it in r.body:
            item_idents(it, vs)
        for h in r.heads:
            for a in h.args:
                vs |= set(a.vars())
        m = inj(vs)
        heads = [MacroCall(h.name, [subst_macro_arg(a, m) for a in h.args]) if isinstance(h, MacroCall) else Head(h.rel, [subst_expr(a, m) for a in h.args])
                 for h in r.heads]
        rules.append(Rule(heads, [subst_item(it, m) for it in r.body], r.brace))
    return Program(prog.rels, rules, macros, prog.attrs)


def gen_screened_program(rng, dom):
    """gen_macro_program + independent expansion, or None if the expansion is ill-scoped, too large, or too expensive for the
    naive reference (probe on a dense input with a small step budget)"""
    from . import gen as G, xform as X, ref as R
    prog, input_rels = gen_macro_program(rng, dom)
    try:
        exp = Expander(prog.macros).expand_program(prog)
    except Exception:
        return None
    if G.check_scoping(exp) or not exp.rules:
        return None
    if max(len(X.expand_disjunctions(r.body)[0]) for r in exp.rules) > 9 or sum(len(X.expand_disjunctions(r.body)) for r in exp.rules) > 40:
        return None        # keep expansions small: long bodies are exponentially expensive for every evaluator
    probe = list(dict.fromkeys(G.gen_input(random.Random(1), exp, input_rels, dom, kind='dense')))
    old_limit = R.Budget.limit
    R.Budget.limit = 150000
    try:
        R.evaluate(exp, G.input_to_dict(probe))
    except R.RefError:
        return None
    finally:
        R.Budget.limit = old_limit
    return prog, exp, input_rels


def gen_screened_input(rng, exp, input_rels, dom, kinds=('dense', 'directed', 'directed', 'skew'), limit=400000):
    """an input (no duplicate rows) that the naive reference gets through within `limit` steps; sparser kinds are tried if not"""
    from . import gen as G, ref as R
    old_limit = R.Budget.limit
    try:
        for attempt in range(4):
            kind = rng.choice(kinds) if attempt < 2 else 'directed'
            rows = list(dict.fromkeys(G.gen_input(rng, exp, input_rels, dom, kind=kind)))
            if attempt == 3:
                rows = rows[:max(1, len(rows) // 3)]
            R.Budget.limit = limit
            try:
                R.evaluate(exp, G.input_to_dict(rows))
                return rows
            except R.RefError:
                continue
        return []
    finally:
        R.Budget.limit = old_limit


def binder_capture_programs():
    """hand-written: a binder inside an expression of a macro body (closure parameter, block let, match arm) carries the name of a
    call-site variable that occurs in an `expr` argument. Hygiene: the binder belongs to the macro and must not capture the argument
    (finding F25)."""
    progs = []
    bodies = [('closure', ClosureApp('t', PlainAdd(V('t'), V('$v')), K(1))),
              ('block', LetIn('t', K(1), PlainAdd(V('t'), V('$v')))),
              ('match', MatchE(K(1), 7, K(0), 't', PlainAdd(V('t'), V('$v'))))]
    for name, e in bodies:
        md = MacroDef('addk', [('v', 'expr'), ('o', 'ident')], body=[Let('$o', e)])
        rels = [Rel('n', [T.I32]), Rel('r', [T.I32, T.I32])]
        rules = [Rule([Head('r', [V('t'), V('o')])], [Clause('n', [AVar('t')]), MacroCall('addk', [V('t'), V('o')])])]
        progs.append((name, Program(rels, rules, [md]), ['n']))
    return progs
