"""Random generator of well-formed Ascent programs over small finite domains, plus input generators.

Programs terminate by construction: every value-producing expression is reduced modulo the domain size or
saturates at a cap, so the Herbrand base is finite; lattice values live in finite-height carriers."""
import random

from .ast import *
from . import types as T
from . import ref as R

VARS = ['x', 'y', 'z', 'w', 'u', 'v', 'a', 'b', 'c', 'd', 'e', 'p', 'q']


class Cfg:
    def __init__(self, **kw):
        self.dom = 5                 # values 0..dom-1
        self.n_rels = (3, 6)
        self.n_input_rels = (1, 3)
        self.n_rules = (3, 8)
        self.arities = [1, 2, 2, 2, 2, 3]
        self.max_clauses = 4
        self.p_cond = 0.3
        self.p_standalone = 0.25
        self.p_two_heads = 0.15
        self.p_fact = 0.1
        self.p_zero_ary = 0.05
        self.neg = False             # allow negation
        self.agg = False             # allow aggregation
        self.lattices = False
        self.sugar = True            # disjunctions, patterns
        self.opt_cols = 0.1          # probability that a column is Option<i32>
        self.avoid_f9 = False        # F9 is fixed: the second clause may join on variables bound by conditions attached to the first
        self.p_leading_binder = 0.15 # let / for before the first clause
        self.__dict__.update(kw)


class Fresh:
    def __init__(self, used=()):
        self.used = set(used)

    def new(self, rng):
        cands = [v for v in VARS if v not in self.used]
        if cands:
            v = rng.choice(cands)
        else:
            v = 'v%d' % len(self.used)
        self.used.add(v)
        return v


def int_expr(rng, vars_, dom, depth=0):
    """an i32-valued expression over bound int variables, result in [0, dom)"""
    if not vars_ or (depth > 0 and rng.random() < 0.3):
        return K(rng.randrange(dom))
    r = rng.random()
    if r < 0.35 or depth >= 2:
        return Bin('+', V(rng.choice(vars_)), K(rng.randrange(1, dom)), dom)
    if r < 0.5:
        return Bin('+', V(rng.choice(vars_)), V(rng.choice(vars_)), dom)
    if r < 0.6:
        return Bin('*', V(rng.choice(vars_)), K(rng.randrange(2, 4)), dom)
    if r < 0.8:
        return MinMax(rng.choice(['min', 'max']), V(rng.choice(vars_)), int_expr(rng, vars_, dom, depth + 1))
    if r < 0.84:
        # an immediately applied closure whose parameter carries the name of a rule variable
        v = rng.choice(vars_)
        return ClosureApp(v, Bin('+', V(v), V(rng.choice(vars_)), dom), Bin('+', V(v), K(rng.randrange(1, dom)), dom))
    if r < 0.88:
        v = rng.choice(vars_)
        return MatchE(V(rng.choice(vars_)), rng.randrange(dom), V(v), v, Bin('+', V(v), K(1), dom))
    if r < 0.93:
        # a block that shadows a rule variable, using the outer one in its own initialiser
        v = rng.choice(vars_)
        return LetIn(v, Bin('+', V(v), K(rng.randrange(1, dom)), dom), Bin('*', V(v), K(rng.randrange(2, 4)), dom) if rng.random() < 0.5 else
                     Bin('+', V(v), V(rng.choice(vars_)), dom))
    return Bin('+', int_expr(rng, vars_, dom, depth + 1), int_expr(rng, vars_, dom, depth + 1), dom)


def bool_expr(rng, vars_, dom):
    a = V(rng.choice(vars_)) if vars_ else K(rng.randrange(dom))
    r = rng.random()
    if r < 0.5 and len(vars_) >= 2:
        b = V(rng.choice(vars_))
    elif r < 0.8:
        b = K(rng.randrange(dom))
    else:
        b = int_expr(rng, vars_, dom)
    e = Cmp(rng.choice(['<', '<=', '==', '!=', '>', '>=']), a, b)
    if rng.random() < 0.15 and vars_:
        e = BoolOp(rng.choice(['&&', '||']), e, Cmp(rng.choice(['<', '!=', '>=']), V(rng.choice(vars_)), K(rng.randrange(dom))))
    if rng.random() < 0.08:
        e = BoolOp('!', e)
    return e


def gen_cond(rng, cfg, fresh, bound):
    """a condition item over bound int vars; may bind a fresh var. returns (item, newly bound vars)"""
    r = rng.random()
    if r < 0.6 or not bound:
        return If(bool_expr(rng, bound, cfg.dom)), []
    if r < 0.74:
        v = fresh.new(rng)
        return Let(v, int_expr(rng, bound, cfg.dom)), [v]
    if r < 0.8:
        # a tuple pattern: one item binds two variables
        v, v2 = fresh.new(rng), fresh.new(rng)
        return LetTup([v, v2], [int_expr(rng, bound, cfg.dom), V(rng.choice(bound))]), [v, v2]
    v = fresh.new(rng)
    return IfLet(v, MkOpt(bool_expr(rng, bound, cfg.dom), int_expr(rng, bound, cfg.dom))), [v]


def gen_clause(rng, cfg, prog_rels, relname, fresh, bound, allow_conds=True, bias_join=0.35, no_join=()):
    rel = prog_rels[relname]
    all_bound = bound
    bound = [b for b in bound if b not in no_join]
    args, new, newp = [], [], []      # new: bound by plain variables; newp: bound by ?patterns (usable only after the clause's args)
    for ci, ty in enumerate(rel.tys):
        is_opt = isinstance(ty, T.OptTy)
        is_latcol = rel.is_lat and ci == len(rel.tys) - 1
        r = rng.random()
        if is_latcol:
            # monotone use only: bind the value through a pattern / fresh variable, never by equality
            args.append(('LAT', ty))
            continue
        if is_opt:
            if r < 0.6:
                v = fresh.new(rng)
                args.append(APat('Some', v))
                newp.append(v)
            elif r < 0.8:
                args.append(AWild())
            else:
                args.append(AExpr(K(rng.choice([None, (rng.randrange(cfg.dom),)]), ty)))
            continue
        ints = bound + new
        if r < bias_join and bound:
            args.append(AVar(rng.choice(bound)))
        elif r < bias_join + 0.33:
            v = fresh.new(rng)
            args.append(AVar(v))
            new.append(v)
        elif r < bias_join + 0.40 and new:
            args.append(AVar(rng.choice(new)))            # repeated variable inside the clause
        elif r < bias_join + 0.50:
            args.append(AWild())
        elif r < bias_join + 0.58:
            args.append(AExpr(K(rng.randrange(cfg.dom))))
        elif ints:
            args.append(AExpr(int_expr(rng, ints, cfg.dom)))
        else:
            v = fresh.new(rng)
            args.append(AVar(v))
            new.append(v)
    new = new + newp
    conds = []
    newc = []
    if allow_conds:
        while rng.random() < cfg.p_cond and len(conds) < 2:
            c, nb = gen_cond(rng, cfg, fresh, all_bound + new + newc)
            conds.append(c)
            newc += nb
    return args, conds, new + newc


def finish_lat_args(rng, cfg, rel, args, fresh):
    """replace the ('LAT', ty) placeholder by a binding form; returns (args, int vars bound, lattice var info)"""
    out, new, latvars = [], [], []
    for a in args:
        if isinstance(a, tuple) and a[0] == 'LAT':
            ty = a[1]
            v = fresh.new(rng)
            if isinstance(ty, T.DualTy) and isinstance(ty.inner, T.IntTy):
                out.append(APat('Dual', v))
                latvars.append((v, ty, 'dual_int'))
            elif rng.random() < 0.15:
                out.append(AWild())
                fresh.used.discard(v)
            else:
                out.append(AVar(v))
                latvars.append((v, ty, 'whole'))
        else:
            out.append(a)
    return out, new, latvars


def gen_positive_program(rng, cfg=None):
    """relations + rules, no negation / aggregation / lattices (C01 fragment)"""
    cfg = cfg or Cfg()
    nrel = rng.randint(*cfg.n_rels)
    rels = []
    for i in range(nrel):
        ar = 0 if rng.random() < cfg.p_zero_ary else rng.choice(cfg.arities)
        tys = []
        for _ in range(ar):
            tys.append(T.OptTy(T.I32) if rng.random() < cfg.opt_cols else T.I32)
        rels.append(Rel('r%d' % i, tys))
    n_in = min(rng.randint(*cfg.n_input_rels), nrel - 1)
    input_rels = [r.name for r in rels[:n_in]]
    derived = [r.name for r in rels[n_in:]]
    prog_rels = {r.name: r for r in rels}
    rules = []
    nrules = max(rng.randint(*cfg.n_rules), len(derived))
    heads_order = list(derived)
    while len(heads_order) < nrules:
        heads_order.append(rng.choice(derived))
    rng.shuffle(heads_order)
    for h in heads_order:
        rules.append(gen_rule(rng, cfg, prog_rels, h, [r.name for r in rels], derived))
    return Program(rels, rules), input_rels


def leading_binder(rng, cfg, fresh):
    """a let / for / if-let placed before the first clause: later clauses may join on its variable"""
    v = fresh.new(rng)
    r = rng.random()
    if r < 0.4:
        return [Let(v, K(rng.randrange(cfg.dom)))], [v]
    if r < 0.7:
        return [For(v, Range(K(0), K(rng.randrange(1, cfg.dom + 1))))], [v]
    if r < 0.85:
        return [For(v, ListE([K(rng.randrange(cfg.dom)) for _ in range(rng.choice([1, 2, 3]))]))], [v]
    return [IfLet(v, MkOpt(K(rng.random() < 0.8, T.BOOL), K(rng.randrange(cfg.dom))))], [v]


def gen_body(rng, cfg, prog_rels, allowed_pos, fresh, bound, nclauses=None, allow_disj=True):
    items = []
    bound = list(bound)
    first_clause_condvars = []     # F9: a variable bound by a condition attached to the first clause cannot be
    prev_was_first_clause = False  # joined on by the clause right after it (simple-join codegen looks it up too early)
    seen_clause = False
    if nclauses is None:
        nclauses = rng.choice([0, 1, 1, 2, 2, 2, 3, 3, 4][:cfg.max_clauses * 2 + 1])
    if nclauses == 0:
        # generator-only body
        v = fresh.new(rng)
        items.append(For(v, Range(K(0), K(rng.randrange(1, cfg.dom)))))
        bound.append(v)
    if nclauses > 0 and rng.random() < cfg.p_leading_binder:
        items_lead, bound_lead = leading_binder(rng, cfg, fresh)
        items += items_lead
        bound += bound_lead
    for ci in range(nclauses):
        if allow_disj and cfg.sugar and rng.random() < 0.12 and not (prev_was_first_clause and first_clause_condvars):
            # disjunction: all alternatives bind the same fresh variables
            nalt = rng.choice([2, 2, 3])
            shared = None
            alts = []
            f0 = set(fresh.used)
            for ai in range(nalt):
                relname = rng.choice(allowed_pos)
                sub_fresh = Fresh(f0)
                args, conds, new = gen_clause(rng, cfg, prog_rels, relname, sub_fresh, bound, allow_conds=False)
                rel = prog_rels[relname]
                args, _, _ = finish_lat_args(rng, cfg, rel, args, sub_fresh) if rel.is_lat else (args, [], [])
                alts.append((relname, args, new, sub_fresh))
            # variables bound by every alternative may be used afterwards: rename so they coincide
            # simplest sound choice: only variables that are bound in *all* alternatives under the same name
            common = None
            for (_, _, new, _) in alts:
                common = set(new) if common is None else (common & set(new))
            # rename non-common new vars apart so that no alternative leaks names
            alt_items = []
            for (relname, args, new, sub_fresh) in alts:
                alt_items.append([Clause(relname, args)])
                fresh.used |= sub_fresh.used
            items.append(Disj(alt_items))
            bound += sorted(common or [])
            prev_was_first_clause = False
            seen_clause = True
            continue
        relname = rng.choice(allowed_pos)
        rel = prog_rels[relname]
        no_join = first_clause_condvars if (prev_was_first_clause and cfg.avoid_f9) else ()
        args, conds, new = gen_clause(rng, cfg, prog_rels, relname, fresh, bound, no_join=no_join)
        if rel.is_lat:
            args, _, _ = finish_lat_args(rng, cfg, rel, args, fresh)
        items.append(Clause(relname, args, conds))
        bound += new
        prev_was_first_clause = not seen_clause
        if not seen_clause:
            first_clause_condvars = [v for c in conds for v in c.binds()]
        seen_clause = True
        if rng.random() < cfg.p_standalone:
            r = rng.random()
            prev_was_first_clause = False
            if r < 0.5 and bound:
                c, nb = gen_cond(rng, cfg, fresh, bound)
                items.append(c)
                bound += nb
            elif r < 0.75:
                v = fresh.new(rng)
                lo = K(0) if not bound or rng.random() < 0.5 else MinMax('min', V(rng.choice(bound)), K(2))
                hi = K(rng.randrange(1, cfg.dom)) if not bound or rng.random() < 0.5 else V(rng.choice(bound))
                items.append(For(v, Range(lo, hi)))
                bound.append(v)
            elif bound:
                v = fresh.new(rng)
                items.append(For(v, ListE([int_expr(rng, bound, cfg.dom) for _ in range(rng.choice([1, 2, 3]))])))
                bound.append(v)
    return items, bound


def gen_head_args(rng, cfg, rel, bound):
    args = []
    for ty in rel.tys:
        if isinstance(ty, T.OptTy):
            r = rng.random()
            if r < 0.25 or not bound:
                args.append(K(rng.choice([None, (rng.randrange(cfg.dom),)]), ty))
            elif r < 0.7:
                args.append(SomeE(V(rng.choice(bound))))
            else:
                args.append(MkOpt(bool_expr(rng, bound, cfg.dom), int_expr(rng, bound, cfg.dom)))
            continue
        r = rng.random()
        if r < 0.65 and bound:
            args.append(V(rng.choice(bound)))
        elif r < 0.75 or not bound:
            args.append(K(rng.randrange(cfg.dom)))
        else:
            args.append(int_expr(rng, bound, cfg.dom))
    return args


def gen_rule(rng, cfg, prog_rels, head, allowed_pos, derived):
    fresh = Fresh()
    if rng.random() < cfg.p_fact:
        rel = prog_rels[head]
        return Rule([Head(head, gen_head_args(rng, cfg, rel, []))], [])
    body, bound = gen_body(rng, cfg, prog_rels, allowed_pos, fresh, [])
    heads = [Head(head, gen_head_args(rng, cfg, prog_rels[head], bound))]
    brace = False
    if rng.random() < cfg.p_two_heads:
        h2 = rng.choice(derived)
        heads.append(Head(h2, gen_head_args(rng, cfg, prog_rels[h2], bound)))
        brace = rng.random() < 0.5
    return Rule(heads, body, brace)


# ------------------------------------------------------------------------------------------------
# well-formedness (scoping) check, independent of Ascent's


def check_scoping(prog):
    """returns list of problems (empty = well-formed w.r.t. variable scoping, arity, declared relations)"""
    probs = []
    rels = {}
    for r in prog.rels:
        rels[r.name] = r

    def chk_items(items, bound, where):
        bound = set(bound)
        for it in items:
            if isinstance(it, Clause):
                if it.rel not in rels:
                    probs.append('%s: undeclared %s' % (where, it.rel))
                    continue
                if len(it.args) != len(rels[it.rel].tys):
                    probs.append('%s: arity %s' % (where, it.rel))
                local = set()
                for a in it.args:
                    if isinstance(a, AVar):
                        local.add(a.name)
                    elif isinstance(a, APat):
                        if a.var in bound or a.var in local:
                            probs.append('%s: pattern rebinding %s' % (where, a.var))
                        local.add(a.var)
                    elif isinstance(a, AExpr):
                        for v in a.e.vars():
                            if v not in bound and v not in local:
                                probs.append('%s: unbound %s in clause arg' % (where, v))
                bound |= local
                for c in it.conds:
                    for v in c.uses():
                        if v not in bound:
                            probs.append('%s: unbound %s in cond' % (where, v))
                    for v in c.binds():
                        if v in bound:
                            probs.append('%s: rebinding %s' % (where, v))
                        bound.add(v)
            elif isinstance(it, (If, Let, IfLet, For)):
                for v in it.uses():
                    if v not in bound:
                        probs.append('%s: unbound %s' % (where, v))
                for v in it.binds():
                    if v in bound:
                        probs.append('%s: rebinding %s' % (where, v))
                    bound.add(v)
            elif isinstance(it, (Neg, Agg)):
                if it.rel not in rels:
                    probs.append('%s: undeclared %s' % (where, it.rel))
                    continue
                if len(it.args) != len(rels[it.rel].tys):
                    probs.append('%s: arity %s' % (where, it.rel))
                agg_bound = set(it.bound) if isinstance(it, Agg) else set()
                for a in it.args:
                    if isinstance(a, AVar) and a.name not in agg_bound and a.name not in bound:
                        probs.append('%s: free var %s in neg/agg' % (where, a.name))
                    if isinstance(a, AVar) and a.name in agg_bound and a.name in bound:
                        probs.append('%s: aggregated var %s already bound' % (where, a.name))
                    if isinstance(a, AExpr):
                        for v in a.e.vars():
                            if v not in bound:
                                probs.append('%s: unbound %s in neg/agg arg' % (where, v))
                for v in it.binds():
                    if v in bound:
                        probs.append('%s: rebinding %s' % (where, v))
                    bound.add(v)
            elif isinstance(it, Disj):
                outs = None
                for alt in it.alts:
                    b = chk_items(alt, bound, where)
                    outs = b if outs is None else (outs & b)
                bound = outs if outs is not None else bound
            elif isinstance(it, MacroCall):
                pass
        return bound

    for ri, rule in enumerate(prog.rules):
        where = 'rule %d' % ri
        bound = chk_items(rule.body, set(), where)
        for h in rule.heads:
            if isinstance(h, MacroCall):
                continue
            if h.rel not in rels:
                probs.append('%s: undeclared head %s' % (where, h.rel))
                continue
            if len(h.args) != len(rels[h.rel].tys):
                probs.append('%s: head arity %s' % (where, h.rel))
            for a in h.args:
                for v in a.vars():
                    if v not in bound:
                        probs.append('%s: unbound %s in head' % (where, v))
    return probs


# ------------------------------------------------------------------------------------------------
# inputs


def rand_value(rng, ty, dom):
    if isinstance(ty, T.OptTy):
        return None if rng.random() < 0.3 else (rand_value(rng, ty.inner, dom),)
    if isinstance(ty, T.DualTy):
        return rand_value(rng, ty.inner, dom)
    if isinstance(ty, T.SetTy):
        return frozenset(rng.sample(range(4), rng.randrange(0, 3)))
    if isinstance(ty, T.BSetTy):
        return frozenset(rng.sample(range(5), rng.randrange(0, min(3, ty.n + 1))))
    if isinstance(ty, T.ConstPropTy):
        return rng.choice(['Bot', ('C', rng.randrange(3)), ('C', rng.randrange(3))])
    if isinstance(ty, T.BoolTy):
        return rng.random() < 0.5
    if isinstance(ty, T.TupTy):
        return tuple(rand_value(rng, e, dom) for e in ty.elems)
    if isinstance(ty, T.StrTy):
        return 's%d' % rng.randrange(dom)
    return rng.randrange(dom)


def directed_facts(rng, prog, dom, loadable, n_rules=3):
    """instantiate bodies of a few rules with random variable assignments and return the instantiated
    positive clauses as facts (program-directed seeding)"""
    facts = []
    rules = [r for r in prog.rules if r.body]
    if not rules:
        return facts
    for _ in range(n_rules):
        rule = rng.choice(rules)
        env = {}

        def val_of(name):
            if name not in env:
                env[name] = rng.randrange(dom)
            return env[name]

        def walk(items):
            for it in items:
                if isinstance(it, Clause):
                    rel = prog.rel(it.rel)
                    if it.rel not in loadable:
                        continue
                    tup = []
                    ok = True
                    for a, ty in zip(it.args, rel.tys):
                        try:
                            if isinstance(a, AVar):
                                if isinstance(ty, T.IntTy) and not rel.is_lat or isinstance(ty, T.IntTy):
                                    tup.append(val_of(a.name))
                                else:
                                    tup.append(rand_value(rng, ty, dom))
                            elif isinstance(a, AWild):
                                tup.append(rand_value(rng, ty, dom))
                            elif isinstance(a, AExpr):
                                for v in a.e.vars():
                                    val_of(v)
                                tup.append(a.e.ev(env))
                            elif isinstance(a, APat):
                                if a.kind == 'Some':
                                    tup.append((val_of(a.var),))
                                else:
                                    tup.append(val_of(a.var))
                        except Exception:
                            ok = False
                            break
                    if ok:
                        facts.append((it.rel, tuple(tup)))
                elif isinstance(it, Disj):
                    walk(rng.choice(it.alts))
                elif isinstance(it, (Let, For, IfLet)):
                    pass
        walk(rule.body)
    return facts


def gen_input(rng, prog, loadable, dom, kind=None, lat_unique=True):
    """returns list of (rel, tuple) in load order"""
    kind = kind or rng.choice(['empty', 'sparse', 'sparse', 'dense', 'directed', 'directed', 'directed', 'skew', 'dups'])
    rows = []
    rels = [prog.rel(n) for n in loadable]
    if kind == 'empty':
        if rng.random() < 0.5 and rels:
            r = rng.choice(rels)
            rows.append((r.name, tuple(rand_value(rng, t, dom) for t in r.tys)))
    else:
        for r in rels:
            space = max(1, dom ** max(1, len(r.tys)))
            if kind == 'sparse':
                n = rng.randrange(0, 4)
            elif kind == 'dense':
                n = rng.randrange(space // 3, space + 1) if space <= 130 else rng.randrange(20, 60)
            elif kind == 'skew':
                n = rng.choice([0, 1, 1, 2, min(space, 40)])
            else:
                n = rng.randrange(0, 6)
            for _ in range(n):
                rows.append((r.name, tuple(rand_value(rng, t, dom) for t in r.tys)))
        if kind in ('directed', 'dups', 'skew'):
            rows += directed_facts(rng, prog, dom, set(loadable), n_rules=rng.choice([2, 3, 5]))
        if kind == 'dups' and rows:
            for _ in range(rng.randrange(1, 4)):
                rows.append(rng.choice(rows))
    rng.shuffle(rows)
    # lattice relations: at most one input row per key (a second one would be caller-made key duplication)
    if lat_unique:
        seen = set()
        out = []
        for rel, tup in rows:
            r = prog.rel(rel)
            if r.is_lat:
                k = (rel, tup[:-1])
                if k in seen:
                    continue
                seen.add(k)
            out.append((rel, tup))
        rows = out
    # 0-ary relations: at most meaningful once
    return rows


def input_to_dict(rows):
    d = {}
    for rel, tup in rows:
        d.setdefault(rel, []).append(tup)
    return d


def show_input(prog, rows):
    return [(rel, [t.show(v) for t, v in zip(prog.rel(rel).tys, tup)]) for rel, tup in rows]


# ------------------------------------------------------------------------------------------------
# programs without interpreted functions (only equality on constants and variables): C06's constant re-mapping


def gen_pure_program(rng, dom=4, neg=True, consts=True):
    nrel = rng.randint(3, 6)
    n_in = rng.randint(1, min(3, nrel - 1))
    rels = [Rel('r%d' % i, [T.I32] * rng.choice([1, 2, 2, 2, 3])) for i in range(nrel)]
    level = {r.name: (0 if i < n_in else rng.randint(1, 3)) for i, r in enumerate(rels)}
    input_rels = [r.name for r in rels[:n_in]]
    derived = [r.name for r in rels[n_in:]]
    byname = {r.name: r for r in rels}
    rules = []
    heads_order = list(derived)
    while len(heads_order) < max(len(derived), rng.randint(3, 8)):
        heads_order.append(rng.choice(derived))
    rng.shuffle(heads_order)
    for h in heads_order:
        fresh = Fresh()
        bound = []
        body = []
        pos = [n for n in byname if level[n] <= level[h]]
        lower = [n for n in byname if level[n] < level[h]]
        if rng.random() < 0.08 and consts:
            rules.append(Rule([Head(h, [K(rng.randrange(dom)) for _ in byname[h].tys])], []))
            continue
        for ci in range(rng.choice([1, 2, 2, 3, 3])):
            rn = rng.choice(pos)
            args, new = [], []
            for _ in byname[rn].tys:
                r = rng.random()
                if r < 0.35 and bound:
                    args.append(AVar(rng.choice(bound)))
                elif r < 0.7:
                    v = fresh.new(rng)
                    args.append(AVar(v))
                    new.append(v)
                elif r < 0.78 and new:
                    args.append(AVar(rng.choice(new)))
                elif r < 0.88 or not consts:
                    args.append(AWild())
                else:
                    args.append(AExpr(K(rng.randrange(dom))))
            conds = []
            allv = bound + new
            if allv and rng.random() < 0.3:
                a = V(rng.choice(allv))
                b = V(rng.choice(allv)) if (rng.random() < 0.5 or not consts) else K(rng.randrange(dom))
                conds.append(If(Cmp(rng.choice(['==', '!=', '!=']), a, b)))
            body.append(Clause(rn, args, conds))
            bound += new
            if neg and lower and bound and rng.random() < 0.2:
                nr = rng.choice(lower)
                body.append(Neg(nr, [AVar(rng.choice(bound)) if rng.random() < 0.7 else (AWild() if (rng.random() < 0.5 or not consts) else AExpr(K(rng.randrange(dom)))) for _ in byname[nr].tys]))
        if not bound:
            continue
        hargs = [V(rng.choice(bound)) if (rng.random() < 0.8 or not consts) else K(rng.randrange(dom)) for _ in byname[h].tys]
        heads = [Head(h, hargs)]
        if rng.random() < 0.15:
            h2 = rng.choice([d for d in derived if level[d] >= level[h]])
            heads.append(Head(h2, [V(rng.choice(bound)) if (rng.random() < 0.8 or not consts) else K(rng.randrange(dom)) for _ in byname[h2].tys]))
        rules.append(Rule(heads, body))
    return Program(rels, rules), input_rels


# ------------------------------------------------------------------------------------------------
# enumerative mode: the space of small rule shapes  [binder]? cl1, cl2  over a fixed vocabulary


def rule_shape_space(binders=(None, 'let', 'for')):
    """all (binder, cl1, cl2) shapes over relations a/2, b/2, h/2 (the recursive head) and c/1, arguments drawn from
    {x, y, z, w (the binder's variable), the constant 1, _}. Returned as a list of descriptors (deterministic order)."""
    binders = list(binders)
    argsyms = ['x', 'y', 'z', 'w', '1', '_']
    shapes = []
    for b in binders:
        syms = [s for s in argsyms if (s != 'w' or b is not None)]
        for r1 in ('a', 'b', 'h'):
            for a1 in syms:
                for a2 in syms:
                    for r2 in ('a', 'b', 'h', 'c'):
                        if r2 == 'c':
                            for c1 in syms:
                                shapes.append((b, r1, (a1, a2), r2, (c1,)))
                        else:
                            for c1 in syms:
                                for c2 in syms:
                                    shapes.append((b, r1, (a1, a2), r2, (c1, c2)))
    return shapes


_SHAPES = None


def shape_to_rule(shape, dom):
    b, r1, a1, r2, a2 = shape

    def arg(s):
        if s == '_':
            return AWild()
        if s == '1':
            return AExpr(K(1 % dom))
        return AVar(s)
    body = []
    bound = []
    if b == 'let':
        body.append(Let('w', K(1 % dom)))
        bound.append('w')
    elif b == 'for':
        body.append(For('w', Range(K(0), K(min(2, dom)))))
        bound.append('w')
    elif b in ('aggmax', 'aggmin', 'aggsecond'):
        # an aggregate BEFORE the clauses: its result variable is bound when the join starts
        body.append(Agg('w', {'aggmax': 'max', 'aggmin': 'min', 'aggsecond': 'second_highest'}[b], ['q0'], 'c', [AVar('q0')]))
        bound.append('w')
    for (r, args) in ((r1, a1), (r2, a2)):
        body.append(Clause(r, [arg(s) for s in args]))
        for s in args:
            if s not in ('_', '1') and s not in bound:
                bound.append(s)
    if not bound:
        return None
    hv = [v for v in bound if v != 'w'] + [v for v in bound if v == 'w']
    p = hv[0]
    q = hv[1] if len(hv) > 1 else hv[0]
    return Rule([Head('h', [V(p), V(q)])], body)


_AGG_SHAPES = None


def enumerated_agg_program(rng, nrules=12, dom=4):
    """like enumerated_program, but every rule starts with an aggregate over the input relation c/1 whose result may be used by
    the two clauses; the head relation is g/2 (not recursive through the aggregate: c is an input)"""
    global _AGG_SHAPES
    if _AGG_SHAPES is None:
        _AGG_SHAPES = [s for s in rule_shape_space(binders=('aggmax', 'aggmin', 'aggsecond')) if 'w' in s[2] + s[4] and s[3] != 'c' or s[3] == 'c' and 'w' in s[2]]
    rels = [Rel('a', [T.I32, T.I32]), Rel('b', [T.I32, T.I32]), Rel('c', [T.I32]), Rel('h', [T.I32, T.I32])]
    rules, picked = [], []
    while len(rules) < nrules:
        i = rng.randrange(len(_AGG_SHAPES))
        if i in picked:
            continue
        r = shape_to_rule(_AGG_SHAPES[i], dom)
        if r is None:
            continue
        picked.append(i)
        rules.append(r)
    return Program(rels, rules), ['a', 'b', 'c'], picked


def enumerated_program(rng, nrules=12, dom=4, probes=True):
    """a program made of `nrules` rule shapes sampled without replacement from the shape space (all heads are the recursive
    relation h, so every shape also occurs with dynamic clauses). With probes, rule i has a second head p<i> with the same
    arguments: what each rule derived stays observable even when h is saturated by the other rules."""
    global _SHAPES
    if _SHAPES is None:
        _SHAPES = rule_shape_space()
    rels = [Rel('a', [T.I32, T.I32]), Rel('b', [T.I32, T.I32]), Rel('c', [T.I32]), Rel('h', [T.I32, T.I32])]
    rules = []
    picked = []
    while len(rules) < nrules:
        i = rng.randrange(len(_SHAPES))
        if i in picked:
            continue
        r = shape_to_rule(_SHAPES[i], dom)
        if r is None:
            continue
        picked.append(i)
        if probes:
            pn = 'p%d' % len(rules)
            rels.append(Rel(pn, [T.I32, T.I32]))
            r = Rule(r.heads + [Head(pn, list(r.heads[0].args))], r.body)
        rules.append(r)
    if probes:
        # the probe relations are written by the recursive stratum but read only afterwards: a later stratum reads each of them
        # through its indices (a tuple that is in the relation but not in its indices goes missing here)
        rels.append(Rel('pa', [T.I32, T.I32, T.I32]))
        for i in range(nrules):
            rules.append(Rule([Head('pa', [K(i), V('x'), V('y')])], [Clause('p%d' % i, [AVar('x'), AVar('y')])]))
    prog = Program(rels, rules)
    return prog, ['a', 'b', 'c'], picked


def enumerated_input(rng, dom):
    """size ratios between a, b, h-seeds on both sides of every size-based decision"""
    sizes = rng.choice([(0, 3, 1), (8, 2, 1), (2, 8, 2), (6, 6, 0), (1, 1, 1), (12, 1, 3), (1, 12, 2), (4, 3, 2)])
    rows = []
    for rel, n in zip(('a', 'b'), sizes[:2]):
        for _ in range(n):
            rows.append((rel, (rng.randrange(dom), rng.randrange(dom))))
    for _ in range(sizes[2]):
        rows.append(('c', (rng.randrange(dom),)))
    if rng.random() < 0.5:
        for _ in range(rng.randrange(1, 4)):
            rows.append(('h', (rng.randrange(dom), rng.randrange(dom))))
    rows = list(dict.fromkeys(rows))
    rng.shuffle(rows)
    return rows
