"""Column types of generated programs: Rust type text, literal printing, canonical text form (matching
vmon::VVal) and, for lattice types, the reference's own join / order (independent of ascent_base)."""


class Ty:
    name = '?'
    rust = '?'
    is_lattice = False
    is_int = False

    def lit(self, v):
        raise NotImplementedError

    def show(self, v):
        raise NotImplementedError

    def parse(self, s):
        raise NotImplementedError

    def __repr__(self):
        return self.name


class IntTy(Ty):
    is_int = True

    def __init__(self, rust, lo, hi):
        self.name = rust
        self.rust = rust
        self.lo, self.hi = lo, hi

    def lit(self, v):
        if v < 0:
            return '(%d%s)' % (v, self.rust)
        return '%d%s' % (v, self.rust)

    def show(self, v):
        return str(v)

    def parse(self, s):
        return int(s)

    # as a lattice: max
    def join(self, a, b):
        return max(a, b)

    def leq(self, a, b):
        return a <= b


I32 = IntTy('i32', -2**31, 2**31 - 1)
I64 = IntTy('i64', -2**63, 2**63 - 1)
U8 = IntTy('u8', 0, 255)
U32 = IntTy('u32', 0, 2**32 - 1)
USIZE = IntTy('usize', 0, 2**64 - 1)


class MaxTy(IntTy):
    """an integer type used as a lattice column (join = max)"""
    is_lattice = True

    def __init__(self, base):
        IntTy.__init__(self, base.rust, base.lo, base.hi)
        self.name = 'max_' + base.rust


class StrTy(Ty):
    name = 'String'
    rust = 'String'

    def lit(self, v):
        return '"%s".to_string()' % v

    def show(self, v):
        return '"%s"' % v

    def parse(self, s):
        return s.strip('"')


STR = StrTy()


class BoolTy(Ty):
    name = 'bool'
    rust = 'bool'
    is_lattice = True

    def lit(self, v):
        return 'true' if v else 'false'

    def show(self, v):
        return 'true' if v else 'false'

    def parse(self, s):
        return s == 'true'

    def join(self, a, b):
        return a or b

    def leq(self, a, b):
        return (not a) or b


BOOL = BoolTy()


class OptTy(Ty):
    """Option<T>. As a lattice (when T is one): None is bottom, Some(a) join Some(b) = Some(a join b)."""

    def __init__(self, inner):
        self.inner = inner
        self.name = 'Option<%s>' % inner.name
        self.rust = 'Option<%s>' % inner.rust
        self.is_lattice = inner.is_lattice or inner.is_int

    def lit(self, v):
        # a bare `None` in argument position would be read by Ascent as a variable named None
        return ('Option::<%s>::None' % self.inner.rust) if v is None else 'Some(%s)' % self.inner.lit(v[0])

    def show(self, v):
        return 'None' if v is None else 'Some(%s)' % self.inner.show(v[0])

    def parse(self, s):
        if s == 'None':
            return None
        assert s.startswith('Some(') and s.endswith(')'), s
        return (self.inner.parse(s[5:-1]),)

    def join(self, a, b):
        if a is None:
            return b
        if b is None:
            return a
        return (self.inner.join(a[0], b[0]),)

    def leq(self, a, b):
        if a is None:
            return True
        if b is None:
            return False
        return self.inner.leq(a[0], b[0])


class DualTy(Ty):
    is_lattice = True

    def __init__(self, inner):
        self.inner = inner
        self.name = 'Dual<%s>' % inner.name
        self.rust = 'ascent::Dual<%s>' % inner.rust

    def lit(self, v):
        return 'ascent::Dual(%s)' % self.inner.lit(v)

    def show(self, v):
        return 'Dual(%s)' % self.inner.show(v)

    def parse(self, s):
        assert s.startswith('Dual(') and s.endswith(')'), s
        return self.inner.parse(s[5:-1])

    def join(self, a, b):
        # join of the dual = meet of the inner; inner types used here are total orders / sets
        if isinstance(self.inner, IntTy):
            return min(a, b)
        return self.inner.meet(a, b)

    def leq(self, a, b):
        return self.inner.leq(b, a)


class SetTy(Ty):
    """ascent::lattice::set::Set<u8>; python value: frozenset of ints"""
    is_lattice = True
    name = 'Set<u8>'
    rust = 'ascent::lattice::set::Set<u8>'

    def lit(self, v):
        return 'ascent::lattice::set::Set(std::collections::BTreeSet::from([%s]))' % ', '.join('%du8' % x for x in sorted(v))

    def show(self, v):
        return '{%s}' % ','.join(str(x) for x in sorted(v))

    def parse(self, s):
        assert s.startswith('{') and s.endswith('}'), s
        body = s[1:-1]
        return frozenset(int(x) for x in body.split(',')) if body else frozenset()

    def join(self, a, b):
        return frozenset(a | b)

    def meet(self, a, b):
        return frozenset(a & b)

    def leq(self, a, b):
        return a <= b


SET_U8 = SetTy()


class BSetTy(Ty):
    """BoundedSet<N, u8>; python value: frozenset or 'TOP'"""
    is_lattice = True

    def __init__(self, n):
        self.n = n
        self.name = 'BoundedSet<%d,u8>' % n
        self.rust = 'ascent::lattice::bounded_set::BoundedSet<%d, u8>' % n

    def lit(self, v):
        if v == 'TOP':
            return '<%s>::TOP' % self.rust
        return '<%s>::from_set(%s)' % (self.rust, SET_U8.lit(v))

    def show(self, v):
        return 'TOP' if v == 'TOP' else SET_U8.show(v)

    def parse(self, s):
        return 'TOP' if s == 'TOP' else SET_U8.parse(s)

    def norm(self, v):
        return 'TOP' if v != 'TOP' and len(v) > self.n else v

    def join(self, a, b):
        if a == 'TOP' or b == 'TOP':
            return 'TOP'
        return self.norm(frozenset(a | b))

    def leq(self, a, b):
        if b == 'TOP':
            return True
        if a == 'TOP':
            return False
        return a <= b


class ConstPropTy(Ty):
    """ConstPropagation<u8>; python value: 'Bot' | 'Top' | ('C', n)"""
    is_lattice = True
    name = 'ConstPropagation<u8>'
    rust = 'ascent::lattice::constant_propagation::ConstPropagation<u8>'

    def lit(self, v):
        p = 'ascent::lattice::constant_propagation::ConstPropagation::'
        if v == 'Bot':
            return p + 'Bottom'
        if v == 'Top':
            return p + 'Top'
        return p + 'Constant(%du8)' % v[1]

    def show(self, v):
        if v in ('Bot', 'Top'):
            return v
        return 'Const(%d)' % v[1]

    def parse(self, s):
        if s in ('Bot', 'Top'):
            return s
        assert s.startswith('Const('), s
        return ('C', int(s[6:-1]))

    def join(self, a, b):
        if a == 'Bot':
            return b
        if b == 'Bot':
            return a
        if a == 'Top' or b == 'Top':
            return 'Top'
        return a if a == b else 'Top'

    def leq(self, a, b):
        return a == 'Bot' or b == 'Top' or a == b


CONSTPROP = ConstPropTy()


class TupTy(Ty):
    """(A, B) with the lexicographic order as lattice order (python tuples compare the same way)"""
    is_lattice = True

    def __init__(self, elems):
        self.elems = elems
        self.name = '(%s)' % ','.join(e.name for e in elems)
        self.rust = '(%s)' % ', '.join(e.rust for e in elems)

    def lit(self, v):
        return '(%s)' % ', '.join(e.lit(x) for e, x in zip(self.elems, v))

    def show(self, v):
        return '(%s)' % ';'.join(e.show(x) for e, x in zip(self.elems, v))

    def parse(self, s):
        assert s.startswith('(') and s.endswith(')'), s
        parts = split_top(s[1:-1], ';')
        return tuple(e.parse(p) for e, p in zip(self.elems, parts))

    def join(self, a, b):
        return max(a, b)

    def leq(self, a, b):
        return a <= b


def split_top(s, sep):
    res, depth, start = [], 0, 0
    if s == '':
        return res
    for i, c in enumerate(s):
        if c in '({':
            depth += 1
        elif c in ')}':
            depth -= 1
        elif c == sep and depth == 0:
            res.append(s[start:i])
            start = i + 1
    res.append(s[start:])
    return res


class GenericI32(IntTy):
    """a struct-level type parameter `T` instantiated at i32 (C09 generic struct signatures)"""

    def __init__(self, param='T'):
        IntTy.__init__(self, 'i32', -2**31, 2**31 - 1)
        self.name = param
        self.rust = param
        self.concrete = 'i32'


class SlowMaxTy(IntTy):
    """vmon::val::SlowMax: an i32 max-lattice whose join / clone pass through a perturbation point"""
    is_lattice = True

    def __init__(self):
        IntTy.__init__(self, 'i32', -2**31, 2**31 - 1)
        self.name = 'SlowMax'
        self.rust = 'vmon::val::SlowMax'

    def lit(self, v):
        return 'vmon::val::SlowMax(%d)' % v


SLOWMAX = SlowMaxTy()
