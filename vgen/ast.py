"""Abstract syntax of generated Ascent programs.

Every node knows how to print itself as Ascent/Rust text (`rs`) and how the *reference* evaluates it
(`ev`, plain Python over ints / tuples / frozensets).  The two are written side by side on purpose: the
expression grammar is tiny and its two semantics are cross-checked by the harness self-test
(`./check --selftest`: every expression form on every small value, Rust vs Python).

Binding convention: Ascent binds clause variables as references and let/for/agg variables as values.
Expressions therefore always read a variable as `x.clone()`, which is the value in both cases.
"""
from . import types as T


# ------------------------------------------------------------------------------------------------
# expressions


class Expr:
    def vars(self):
        return set()


class V(Expr):
    def __init__(self, name):
        self.name = name

    def rs(self, sc=None):
        if sc and self.name in sc:
            return sc[self.name]
        return '%s.clone()' % self.name

    def ev(self, env):
        return env[self.name]

    def vars(self):
        return {self.name}

    def ren(self, m):
        return V(m.get(self.name, self.name))


class K(Expr):
    def __init__(self, v, ty=T.I32):
        self.v, self.ty = v, ty

    def rs(self, sc=None):
        return self.ty.lit(self.v)

    def ev(self, env):
        return self.v

    def ren(self, m):
        return self


class Raw(Expr):
    """captured local of ascent_run! (printed as an identifier, evaluated as a constant)"""

    def __init__(self, text, v):
        self.text, self.v = text, v

    def rs(self, sc=None):
        return self.text

    def ev(self, env):
        return self.v

    def ren(self, m):
        return self


class Bin(Expr):
    """arithmetic under a cap: ((a op b) % cap); operands are non-negative so Rust % == Python %"""
    OPS = {'+': lambda a, b: a + b, '*': lambda a, b: a * b}

    def __init__(self, op, a, b, cap):
        self.op, self.a, self.b, self.cap = op, a, b, cap

    def rs(self, sc=None):
        return '((%s %s %s) %% %d)' % (self.a.rs(sc), self.op, self.b.rs(sc), self.cap)

    def ev(self, env):
        return self.OPS[self.op](self.a.ev(env), self.b.ev(env)) % self.cap

    def vars(self):
        return self.a.vars() | self.b.vars()

    def ren(self, m):
        return Bin(self.op, self.a.ren(m), self.b.ren(m), self.cap)


class SatAdd(Expr):
    """saturating add under a cap: min(a + b, cap)"""

    def __init__(self, a, b, cap):
        self.a, self.b, self.cap = a, b, cap

    def rs(self, sc=None):
        return 'std::cmp::min(%s + %s, %d)' % (self.a.rs(sc), self.b.rs(sc), self.cap)

    def ev(self, env):
        return min(self.a.ev(env) + self.b.ev(env), self.cap)

    def vars(self):
        return self.a.vars() | self.b.vars()

    def ren(self, m):
        return SatAdd(self.a.ren(m), self.b.ren(m), self.cap)


class LetIn(Expr):
    """a Rust block that shadows a rule variable: `{ let v = <init>; <body> }`; the `v` inside <init> is the outer variable"""

    def __init__(self, var, init, body):
        self.var, self.init, self.body = var, init, body

    def rs(self, sc=None):
        inner = {k: t for k, t in sc.items() if k != self.var} if sc else sc
        return '{ let %s = %s; %s }' % (self.var, self.init.rs(sc), self.body.rs(inner))

    def ev(self, env):
        env2 = dict(env)
        env2[self.var] = self.init.ev(env)
        return self.body.ev(env2)

    def vars(self):
        return self.init.vars() | (self.body.vars() - {self.var})

    def ren(self, m):
        # the block-local binding is renamed together with the outer variable of the same name (still the same meaning)
        return LetIn(m.get(self.var, self.var), self.init.ren(m), self.body.ren(m))


class PlainAdd(Expr):
    """`a + k` printed WITHOUT parentheses around it: as an `expr` argument of an in-program macro it must still be substituted as one
    expression (`$x * 2` with `$x := a + 1` means `(a + 1) * 2`, as with Rust's own `$x:expr`)"""

    def __init__(self, a, b):
        self.a, self.b = a, b

    def rs(self, sc=None):
        return '%s + %s' % (self.a.rs(sc), self.b.rs(sc))

    def ev(self, env):
        return self.a.ev(env) + self.b.ev(env)

    def vars(self):
        return self.a.vars() | self.b.vars()

    def ren(self, m):
        return PlainAdd(self.a.ren(m), self.b.ren(m))


class Paren(Expr):
    def __init__(self, e):
        self.e = e

    def rs(self, sc=None):
        return '(%s)' % self.e.rs(sc)

    def ev(self, env):
        return self.e.ev(env)

    def vars(self):
        return self.e.vars()

    def ren(self, m):
        return Paren(self.e.ren(m))


class ClosureApp(Expr):
    """an immediately applied closure whose parameter shadows nothing or a rule variable: `(|v: i32| <body>)(<arg>)`"""

    def __init__(self, var, body, arg):
        self.var, self.body, self.arg = var, body, arg

    def rs(self, sc=None):
        inner = {k: t for k, t in sc.items() if k != self.var} if sc else sc
        return '(|%s: i32| %s)(%s)' % (self.var, self.body.rs(inner), self.arg.rs(sc))

    def ev(self, env):
        env2 = dict(env)
        env2[self.var] = self.arg.ev(env)
        return self.body.ev(env2)

    def vars(self):
        return self.arg.vars() | (self.body.vars() - {self.var})

    def ren(self, m):
        return ClosureApp(m.get(self.var, self.var), self.body.ren(m), self.arg.ren(m))


class MatchE(Expr):
    """`match <scrut> { <k> => <e0>, <var> => <e1> }`: the second arm binds the scrutinee"""

    def __init__(self, scrut, k, e0, var, e1):
        self.scrut, self.k, self.e0, self.var, self.e1 = scrut, k, e0, var, e1

    def rs(self, sc=None):
        inner = {k: t for k, t in sc.items() if k != self.var} if sc else sc
        return '(match %s { %di32 => %s, %s => %s })' % (self.scrut.rs(sc), self.k, self.e0.rs(sc), self.var, self.e1.rs(inner))

    def ev(self, env):
        v = self.scrut.ev(env)
        if v == self.k:
            return self.e0.ev(env)
        env2 = dict(env)
        env2[self.var] = v
        return self.e1.ev(env2)

    def vars(self):
        return self.scrut.vars() | self.e0.vars() | (self.e1.vars() - {self.var})

    def ren(self, m):
        return MatchE(self.scrut.ren(m), self.k, self.e0.ren(m), m.get(self.var, self.var), self.e1.ren(m))


class MinMax(Expr):
    def __init__(self, which, a, b):
        self.which, self.a, self.b = which, a, b

    def rs(self, sc=None):
        return 'std::cmp::%s(%s, %s)' % (self.which, self.a.rs(sc), self.b.rs(sc))

    def ev(self, env):
        return (min if self.which == 'min' else max)(self.a.ev(env), self.b.ev(env))

    def vars(self):
        return self.a.vars() | self.b.vars()

    def ren(self, m):
        return MinMax(self.which, self.a.ren(m), self.b.ren(m))


class Cmp(Expr):
    OPS = {'<': lambda a, b: a < b, '<=': lambda a, b: a <= b, '==': lambda a, b: a == b,
           '!=': lambda a, b: a != b, '>': lambda a, b: a > b, '>=': lambda a, b: a >= b}

    def __init__(self, op, a, b):
        self.op, self.a, self.b = op, a, b

    def rs(self, sc=None):
        return '(%s %s %s)' % (self.a.rs(sc), self.op, self.b.rs(sc))

    def ev(self, env):
        return self.OPS[self.op](self.a.ev(env), self.b.ev(env))

    def vars(self):
        return self.a.vars() | self.b.vars()

    def ren(self, m):
        return Cmp(self.op, self.a.ren(m), self.b.ren(m))


class BoolOp(Expr):
    def __init__(self, op, a, b=None):
        self.op, self.a, self.b = op, a, b

    def rs(self, sc=None):
        if self.op == '!':
            return '(!%s)' % self.a.rs(sc)
        return '(%s %s %s)' % (self.a.rs(sc), self.op, self.b.rs(sc))

    def ev(self, env):
        if self.op == '!':
            return not self.a.ev(env)
        if self.op == '&&':
            return self.a.ev(env) and self.b.ev(env)
        return self.a.ev(env) or self.b.ev(env)

    def vars(self):
        return self.a.vars() | (self.b.vars() if self.b else set())

    def ren(self, m):
        return BoolOp(self.op, self.a.ren(m), self.b.ren(m) if self.b else None)


class MkOpt(Expr):
    """if cond { Some(e) } else { None }; python value (v,) / None"""

    def __init__(self, cond, e):
        self.cond, self.e = cond, e

    def rs(self, sc=None):
        return '(if %s { Some(%s) } else { None })' % (self.cond.rs(sc), self.e.rs(sc))

    def ev(self, env):
        return (self.e.ev(env),) if self.cond.ev(env) else None

    def vars(self):
        return self.cond.vars() | self.e.vars()

    def ren(self, m):
        return MkOpt(self.cond.ren(m), self.e.ren(m))


class Wrap(Expr):
    """value constructors that do not change the python representation or change it by `conv`"""

    def __init__(self, fmt, e, conv=None):
        self.fmt, self.e, self.conv = fmt, e, conv

    def rs(self, sc=None):
        return self.fmt % self.e.rs(sc)

    def ev(self, env):
        v = self.e.ev(env)
        return self.conv(v) if self.conv else v

    def vars(self):
        return self.e.vars()

    def ren(self, m):
        return Wrap(self.fmt, self.e.ren(m), self.conv)


def Dual(e):
    return Wrap('ascent::Dual(%s)', e)


def SomeE(e):
    return Wrap('Some(%s)', e, lambda v: (v,))


def SetSingle(e):
    return Wrap('ascent::lattice::set::Set::singleton((%s) as u8)', e, lambda v: frozenset([v % 256]))


def BSetSingle(n, e):
    return Wrap('ascent::lattice::bounded_set::BoundedSet::<%d, u8>::singleton((%%s) as u8)' % n, e, lambda v: frozenset([v % 256]))


def ConstOf(e):
    return Wrap('ascent::lattice::constant_propagation::ConstPropagation::Constant((%s) as u8)', e, lambda v: ('C', v % 256))


def OptMapSatInc(e, cap):
    return Wrap('%%s.map(|t| std::cmp::min(t + 1, %d))' % cap, e, lambda v: None if v is None else (min(v[0] + 1, cap),))


def OptIsSome(e):
    return Wrap('%s.is_some()', e, lambda v: v is not None)


def OptGe(e, c):
    return Wrap('(%%s >= Some(%di32))' % c, e, lambda v: v is not None and v[0] >= c)


def SetContains(e, c):
    return Wrap('%%s.contains(&%du8)' % c, e, lambda v: v == 'TOP' or c in v)


def IsTop(e):
    return Wrap('(%s == ascent::lattice::constant_propagation::ConstPropagation::Top)', e, lambda v: v == 'Top')


class TupE(Expr):
    def __init__(self, es):
        self.es = es

    def rs(self, sc=None):
        return '(%s)' % ', '.join(e.rs(sc) for e in self.es)

    def ev(self, env):
        return tuple(e.ev(env) for e in self.es)

    def vars(self):
        s = set()
        for e in self.es:
            s |= e.vars()
        return s

    def ren(self, m):
        return TupE([e.ren(m) for e in self.es])


def Cast(e, ty):
    return Wrap('((%%s) as %s)' % ty.rust, e)


class Range(Expr):
    def __init__(self, a, b):
        self.a, self.b = a, b

    def rs(self, sc=None):
        return '(%s..%s)' % (self.a.rs(sc), self.b.rs(sc))

    def ev(self, env):
        return list(range(self.a.ev(env), self.b.ev(env)))

    def vars(self):
        return self.a.vars() | self.b.vars()

    def ren(self, m):
        return Range(self.a.ren(m), self.b.ren(m))


class ListE(Expr):
    def __init__(self, es):
        self.es = es

    def rs(self, sc=None):
        return '[%s]' % ', '.join(e.rs(sc) for e in self.es)

    def ev(self, env):
        return [e.ev(env) for e in self.es]

    def vars(self):
        s = set()
        for e in self.es:
            s |= e.vars()
        return s

    def ren(self, m):
        return ListE([e.ren(m) for e in self.es])


# ------------------------------------------------------------------------------------------------
# clause arguments


class AVar:
    def __init__(self, name):
        self.name = name

    def rs(self, sc=None):
        return self.name

    def ren(self, m):
        return AVar(m.get(self.name, self.name))


class AWild:
    def rs(self, sc=None):
        return '_'

    def ren(self, m):
        return self


class AExpr:
    """constant or expression argument (an equality test against the column)"""

    def __init__(self, e):
        self.e = e

    def rs(self, sc=None):
        return self.e.rs(sc)

    def ren(self, m):
        return AExpr(self.e.ren(m))


class APat:
    """?Some(v) on an Option column, ?Dual(v) on a Dual column"""

    def __init__(self, kind, var):
        self.kind, self.var = kind, var

    def rs(self, sc=None):
        k = {'Some': 'Some', 'Dual': 'ascent::Dual'}[self.kind]
        return '?%s(%s)' % (k, self.var)

    def match(self, v):
        """returns (ok, bound value)"""
        if self.kind == 'Some':
            return (v is not None, v[0] if v is not None else None)
        return (True, v)

    def ren(self, m):
        return APat(self.kind, m.get(self.var, self.var))


# ------------------------------------------------------------------------------------------------
# body items


class If:
    def __init__(self, e):
        self.e = e

    def rs(self, sc=None):
        return 'if %s' % self.e.rs(sc)

    def ren(self, m):
        return If(self.e.ren(m))

    def binds(self):
        return []

    def uses(self):
        return self.e.vars()


class Let:
    def __init__(self, var, e):
        self.var, self.e = var, e

    def rs(self, sc=None):
        return 'let %s = %s' % (self.var, self.e.rs(sc))

    def ren(self, m):
        return Let(m.get(self.var, self.var), self.e.ren(m))

    def binds(self):
        return [self.var]

    def uses(self):
        return self.e.vars()

    def bind_into(self, out, env):
        out[self.var] = self.e.ev(env)


class LetTup(Let):
    """let (a, b) = (e1, e2): one item binding several variables through a tuple pattern"""

    def __init__(self, vars_, es):
        self.vars_, self.es = list(vars_), list(es)
        self.var, self.e = self.vars_[0], self.es[0]

    def rs(self, sc=None):
        return 'let (%s) = (%s)' % (', '.join(self.vars_), ', '.join(e.rs(sc) for e in self.es))

    def ren(self, m):
        return LetTup([m.get(v, v) for v in self.vars_], [e.ren(m) for e in self.es])

    def binds(self):
        return list(self.vars_)

    def uses(self):
        s = set()
        for e in self.es:
            s |= e.vars()
        return s

    def bind_into(self, out, env):
        for v, e in zip(self.vars_, self.es):
            out[v] = e.ev(env)


class IfLet:
    """if let Some(var) = e (e evaluates to an Option) | if let Dual(var) = e (e evaluates to a Dual)"""

    def __init__(self, var, e, pat='Some'):
        self.var, self.e, self.pat = var, e, pat

    def rs(self, sc=None):
        k = {'Some': 'Some', 'Dual': 'ascent::Dual'}[self.pat]
        return 'if let %s(%s) = %s' % (k, self.var, self.e.rs(sc))

    def ren(self, m):
        return IfLet(m.get(self.var, self.var), self.e.ren(m), self.pat)

    def binds(self):
        return [self.var]

    def uses(self):
        return self.e.vars()

    def match(self, v):
        if self.pat == 'Some':
            return (v is not None, v[0] if v is not None else None)
        return (True, v)


class For:
    def __init__(self, var, e):
        self.var, self.e = var, e

    def rs(self, sc=None):
        return 'for %s in %s' % (self.var, self.e.rs(sc))

    def ren(self, m):
        return For(m.get(self.var, self.var), self.e.ren(m))

    def binds(self):
        return [self.var]

    def uses(self):
        return self.e.vars()


class Clause:
    def __init__(self, rel, args, conds=None):
        self.rel, self.args, self.conds = rel, args, conds or []

    def rs(self, sc=None):
        s = '%s(%s)' % (self.rel, ', '.join(a.rs(sc) for a in self.args))
        for c in self.conds:
            s += ' ' + c.rs(sc)
        return s

    def ren(self, m, relmap=None):
        return Clause((relmap or {}).get(self.rel, self.rel), [a.ren(m) for a in self.args], [c.ren(m) for c in self.conds])

    def binds(self):
        res = []
        for a in self.args:
            if isinstance(a, AVar):
                res.append(a.name)
            elif isinstance(a, APat):
                res.append(a.var)
        for c in self.conds:
            res += c.binds()
        return res

    def uses(self):
        s = set()
        for a in self.args:
            if isinstance(a, AExpr):
                s |= a.e.vars()
            elif isinstance(a, AVar):
                s.add(a.name)
        for c in self.conds:
            s |= c.uses()
        return s


class Neg:
    def __init__(self, rel, args):
        self.rel, self.args = rel, args

    def rs(self, sc=None):
        return '!%s(%s)' % (self.rel, ', '.join(a.rs(sc) for a in self.args))

    def ren(self, m, relmap=None):
        return Neg((relmap or {}).get(self.rel, self.rel), [a.ren(m) for a in self.args])

    def binds(self):
        return []

    def uses(self):
        s = set()
        for a in self.args:
            if isinstance(a, AExpr):
                s |= a.e.vars()
            elif isinstance(a, AVar):
                s.add(a.name)
        return s


# aggregator table: name -> (rust path text (with %s for a parameter), python function over the list of
# bound-column tuples returning the list of results)
def _agg_mean(rows):
    if not rows:
        return []
    s = 0.0
    for r in rows:
        s = float(r[0]) + s
    return [s / len(rows)]


def _agg_percentile(p):
    def f(rows):
        vals = sorted(r[0] for r in rows)
        if not vals:
            return []
        i = int(len(vals) * p / 100.0)
        i = min(i, len(vals) - 1)   # the only total reading for p = 100 (C17)
        return [vals[i]]
    return f


def _second_highest(rows):
    v = sorted(set(r[0] for r in rows))
    return [v[-2]] if len(v) >= 2 else []


AGGS = {
    'count': ('ascent::aggregators::count', lambda rows: [len(rows)]),
    'sum': ('ascent::aggregators::sum', lambda rows: [sum(r[0] for r in rows)]),
    'min': ('ascent::aggregators::min', lambda rows: [min(r[0] for r in rows)] if rows else []),
    'max': ('ascent::aggregators::max', lambda rows: [max(r[0] for r in rows)] if rows else []),
    'mean': ('ascent::aggregators::mean', _agg_mean),
    'not': ('ascent::aggregators::not', lambda rows: [()] if not rows else []),
    'second_highest': ('vmon::aggs::second_highest', _second_highest),
    'lowest3': ('vmon::aggs::lowest3', lambda rows: sorted(set(r[0] for r in rows))[:3]),
    'nothing': ('vmon::aggs::nothing', lambda rows: []),
    'sum_prod': ('vmon::aggs::sum_prod', lambda rows: [sum(r[0] * r[1] for r in rows)]),
}


class Agg:
    """agg <pat> = f(bound...) in rel(args).  `res` is the result variable (None for `()` of `not`).
    `res_read` is the Rust text used to read the result as a column value (e.g. "(n as i32)")
    and `res_conv` the python conversion of the aggregator's result to that value."""

    def __init__(self, res, agg, bound, rel, args, param=None, res_read=None, res_conv=None):
        self.res, self.agg, self.bound, self.rel, self.args, self.param = res, agg, bound, rel, args, param
        self.res_read, self.res_conv = res_read, res_conv

    def agg_rs(self):
        if self.agg == 'percentile':
            return '(ascent::aggregators::percentile(%s))' % repr(float(self.param))
        return AGGS[self.agg][0]

    def agg_fn(self):
        if self.agg == 'percentile':
            return _agg_percentile(self.param)
        return AGGS[self.agg][1]

    def rs(self, sc=None):
        pat = self.res if self.res else '()'
        return 'agg %s = %s(%s) in %s(%s)' % (pat, self.agg_rs(), ', '.join(self.bound), self.rel,
                                             ', '.join(a.rs(sc) for a in self.args))

    def ren(self, m, relmap=None):
        return Agg(m.get(self.res, self.res) if self.res else None, self.agg, [m.get(b, b) for b in self.bound],
                   (relmap or {}).get(self.rel, self.rel), [a.ren(m) for a in self.args], self.param,
                   __import__('re').sub(r'\b%s\b' % __import__('re').escape(self.res), m.get(self.res, self.res), self.res_read) if self.res_read and self.res else self.res_read,
                   self.res_conv)

    def binds(self):
        return [self.res] if self.res else []

    def uses(self):
        s = set()
        for a in self.args:
            if isinstance(a, AExpr):
                s |= a.e.vars()
            elif isinstance(a, AVar) and a.name not in self.bound:
                s.add(a.name)
        return s


class Disj:
    def __init__(self, alts):
        self.alts = alts   # list of lists of body items

    def rs(self, sc=None):
        parts = []
        for k, alt in enumerate(self.alts):
            t = ', '.join(rs_item(i, sc) for i in alt)
            last = alt[-1] if alt else None
            ends_in_expr = isinstance(last, (If, Let, IfLet, For)) or (isinstance(last, Clause) and last.conds)
            if ends_in_expr and k < len(self.alts) - 1:
                # `... if c | next` would be read as the Rust expression `c | next`: close the alternative first
                t = '(%s)' % t
            parts.append(t)
        return '(%s)' % ' | '.join(parts)

    def ren(self, m, relmap=None):
        return Disj([[ren_item(i, m, relmap) for i in alt] for alt in self.alts])

    def binds(self):
        res = []
        for alt in self.alts:
            for i in alt:
                res += i.binds()
        return res

    def uses(self):
        s = set()
        for alt in self.alts:
            for i in alt:
                s |= i.uses()
        return s


class MacroCall:
    def __init__(self, name, args):
        self.name, self.args = name, args   # args: list of Expr (V for ident params)

    def rs(self, sc=None):
        return '%s!(%s)' % (self.name, ', '.join(a.rs_macro_arg() if hasattr(a, 'rs_macro_arg') else _macro_arg_rs(a, sc) for a in self.args))

    def binds(self):
        return []

    def uses(self):
        return set()


def _macro_arg_rs(a, sc):
    # a plain variable is passed as an identifier (it may be bound by the macro body)
    if isinstance(a, V):
        return a.name
    return a.rs(sc)


def rs_item(i, sc=None):
    return i.rs(sc)


def ren_item(i, m, relmap=None):
    if isinstance(i, (Clause, Neg, Agg, Disj)):
        return i.ren(m, relmap)
    return i.ren(m)


# ------------------------------------------------------------------------------------------------
# rules, relations, programs


class Head:
    def __init__(self, rel, args):
        self.rel, self.args = rel, args   # args: Exprs

    def rs(self, sc=None):
        return '%s(%s)' % (self.rel, ', '.join(_head_arg_rs(a, sc) for a in self.args))

    def ren(self, m, relmap=None):
        return Head((relmap or {}).get(self.rel, self.rel), [a.ren(m) for a in self.args])


def _head_arg_rs(a, sc):
    # a bare variable is written bare (Ascent converts references to values)
    if isinstance(a, V) and not (sc and a.name in sc):
        return a.name
    return a.rs(sc)


class Rule:
    def __init__(self, heads, body, brace=False):
        self.heads, self.body, self.brace = heads, body, brace

    def scope(self):
        """read forms of variables that are not plain (aggregate results)"""
        sc = {}

        def walk(items):
            for i in items:
                if isinstance(i, Agg) and i.res and i.res_read:
                    sc[i.res] = i.res_read
                elif isinstance(i, Disj):
                    for alt in i.alts:
                        walk(alt)
        walk(self.body)
        return sc

    def rs(self):
        sc = self.scope()
        h = ', '.join(x.rs(sc) if not isinstance(x, MacroCall) else x.rs(sc) for x in self.heads)
        if self.brace:
            h = '{ %s }' % h
        if not self.body:
            return '%s;' % h
        return '%s <-- %s;' % (h, ', '.join(rs_item(i, sc) for i in self.body))

    def ren(self, m, relmap=None):
        return Rule([h.ren(m, relmap) for h in self.heads], [ren_item(i, m, relmap) for i in self.body], self.brace)


class Rel:
    def __init__(self, name, tys, is_lat=False, ds=None, init=None):
        self.name, self.tys, self.is_lat, self.ds, self.init = name, tys, is_lat, ds, init

    def decl(self, init_text=None):
        kw = 'lattice' if self.is_lat else 'relation'
        attr = '#[ds(%s)] ' % self.ds if self.ds else ''
        init = ' = %s' % init_text if init_text else ''
        return '%s%s %s(%s)%s;' % (attr, kw, self.name, ', '.join(t.rust for t in self.tys), init)


class MacroDef:
    def __init__(self, name, params, body=None, heads=None):
        self.name, self.params, self.body, self.heads = name, params, body, heads   # params: [(name, 'ident'|'expr')]

    def rs(self):
        ps = ', '.join('$%s: %s' % (n, k) for n, k in self.params)
        if self.body is not None:
            inner = ', '.join(rs_item(i, None) for i in self.body)
        else:
            inner = ', '.join(h.rs(None) for h in self.heads)
        return 'macro %s(%s) { %s }' % (self.name, ps, inner)


class Program:
    def __init__(self, rels, rules, macros=None, attrs=None):
        self.rels = rels          # list of Rel (declaration order)
        self.rules = rules
        self.macros = macros or []
        self.attrs = attrs or []

    def rel(self, name):
        for r in reversed(self.rels):
            if r.name == name:
                return r
        raise KeyError(name)

    def lines(self, extra_attrs=(), struct_sig=None, init_texts=None):
        """(header lines [attributes, struct signature], item lines [declarations, macros, rules])"""
        head = []
        for a in list(self.attrs) + list(extra_attrs):
            head.append('#![%s]' % a)
        if struct_sig:
            head.append(struct_sig)
        items = []
        for r in self.rels:
            items.append(r.decl((init_texts or {}).get(r.name)))
        for m in self.macros:
            items.append(m.rs())
        for r in self.rules:
            items.append(r.rs())
        return head, items

    def text(self, extra_attrs=(), struct_sig=None, init_texts=None, indent='   '):
        head, items = self.lines(extra_attrs, struct_sig, init_texts)
        return '\n'.join(indent + l for l in head + items)
