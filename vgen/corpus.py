"""Hand-written program families (README / example style programs and reproducers of the regions where
findings were seen), parametrised by a seed. Each returns (name, Program, input relation names, input maker)."""
import random

from .ast import *
from . import types as T
from .gen2 import MAXI, DUALI, CAP


def _graph(rng, n, m, weights=None):
    edges = set()
    while len(edges) < m:
        a, b = rng.randrange(n), rng.randrange(n)
        edges.add((a, b))
    edges = sorted(edges)
    rng.shuffle(edges)
    if weights:
        return [(a, b, rng.randrange(1, weights)) for a, b in edges]
    return edges


def tc(rng):
    prog = Program([Rel('edge', [T.I32, T.I32]), Rel('path', [T.I32, T.I32])],
                   [Rule([Head('path', [V('x'), V('y')])], [Clause('edge', [AVar('x'), AVar('y')])]),
                    Rule([Head('path', [V('x'), V('z')])], [Clause('edge', [AVar('x'), AVar('y')]), Clause('path', [AVar('y'), AVar('z')])])])

    def inputs(rng):
        n = rng.choice([4, 8, 14, 24, 60])
        kind = rng.choice(['chain', 'cycle', 'random', 'random'])
        if kind == 'chain':
            e = [(i, i + 1) for i in range(n)]
        elif kind == 'cycle':
            e = [(i, (i + 1) % n) for i in range(n)]
        else:
            e = _graph(rng, n, rng.randrange(n, 3 * n))
        rng.shuffle(e)
        return [('edge', t) for t in e]
    return 'tc', prog, ['edge'], inputs


def sp_count(rng):
    """shortest paths (README) with an aggregate over the lattice: a row that improves in a later iteration
    must still be counted once (F7 region in parallel mode)"""
    W = 40
    prog = Program([Rel('edge', [T.I32, T.I32, T.I32]), Rel('sp', [T.I32, T.I32, DUALI], is_lat=True),
                    Rel('cnt', [T.I32]), Rel('cntk', [T.I32, T.I32]), Rel('near', [T.I32, T.I32])],
                   [Rule([Head('sp', [V('x'), V('y'), Dual(V('w'))])], [Clause('edge', [AVar('x'), AVar('y'), AVar('w')])]),
                    Rule([Head('sp', [V('x'), V('z'), Dual(SatAdd(V('w'), V('l'), W))])],
                         [Clause('edge', [AVar('x'), AVar('y'), AVar('w')]), Clause('sp', [AVar('y'), AVar('z'), APat('Dual', 'l')])]),
                    Rule([Head('cnt', [V('n')])], [Agg('n', 'count', [], 'sp', [AWild(), AWild(), AWild()], None, '(n as i32)', int)]),
                    Rule([Head('cntk', [V('x'), V('n')])], [Clause('sp', [AVar('x'), AWild(), AWild()]),
                                                            Agg('n', 'count', [], 'sp', [AVar('x'), AWild(), AWild()], None, '(n as i32)', int)]),
                    Rule([Head('near', [V('x'), V('y')])], [Clause('sp', [AVar('x'), AVar('y'), APat('Dual', 'l')], [If(Cmp('<=', V('l'), K(6)))])]),
                    ])

    def inputs(rng):
        n = rng.choice([4, 6, 9, 12])
        kind = rng.choice(['longcheap', 'random', 'random'])
        if kind == 'longcheap':
            # one long cheap path 0 -> 1 -> ... -> n-1 and one expensive direct edge 0 -> n-1: sp(0, n-1) improves late
            e = [(i, i + 1, 1) for i in range(n - 1)] + [(0, n - 1, 30)] + [(0, i, 20) for i in range(2, n - 1, 2)]
        else:
            e = _graph(rng, n, rng.randrange(n, 3 * n), weights=9)
        rng.shuffle(e)
        return [('edge', t) for t in e]
    return 'sp_count', prog, ['edge'], inputs


def funnel_rel(rng):
    """thousands of derivations of the same few head tuples (parallel workers collide on insert)"""
    k = rng.choice([1, 2, 3])
    prog = Program([Rel('big', [T.I32]), Rel('big2', [T.I32, T.I32]), Rel('h', [T.I32]), Rel('h2', [T.I32, T.I32]), Rel('cnt', [T.I32]), Rel('cnt2', [T.I32, T.I32])],
                   [Rule([Head('h', [Bin('+', V('x'), K(0), k)])], [Clause('big', [AVar('x')])]),
                    Rule([Head('h2', [Bin('+', V('x'), K(0), k), Bin('+', V('y'), K(0), 2)]), Head('h', [Bin('+', V('y'), K(1), k)])],
                         [Clause('big2', [AVar('x'), AVar('y')])]),
                    Rule([Head('h2', [V('a'), V('b')])], [Clause('h', [AVar('a')]), Clause('h', [AVar('b')])]),
                    Rule([Head('cnt', [V('n')])], [Agg('n', 'count', [], 'h', [AWild()], None, '(n as i32)', int)]),
                    Rule([Head('cnt2', [V('a'), V('n')])], [Clause('h2', [AVar('a'), AWild()]),
                                                            Agg('n', 'count', [], 'h2', [AVar('a'), AWild()], None, '(n as i32)', int)]),
                    ])

    def inputs(rng):
        n = rng.choice([50, 400, 1500])
        rows = [('big', (i,)) for i in range(n)] + [('big2', (i, (i * 7) % 13)) for i in range(n // 2)]
        rng.shuffle(rows)
        return rows
    return 'funnel_rel', prog, ['big', 'big2'], inputs


def funnel_lat(rng):
    """many workers improving the same lattice key in the same iteration"""
    k = rng.choice([1, 2, 3])
    prog = Program([Rel('big', [T.I32, T.I32]), Rel('l', [T.I32, MAXI], is_lat=True), Rel('d', [T.I32, DUALI], is_lat=True),
                    Rel('g', [MAXI], is_lat=True), Rel('cnt', [T.I32]), Rel('hi', [T.I32])],
                   [Rule([Head('l', [Bin('+', V('x'), K(0), k), V('v')]), Head('d', [Bin('+', V('x'), K(0), k), Dual(V('v'))])], [Clause('big', [AVar('x'), AVar('v')])]),
                    Rule([Head('g', [V('v')])], [Clause('l', [AWild(), AVar('v')])]),
                    Rule([Head('l', [Bin('+', V('x'), K(1), k), SatAdd(V('v'), K(1), 45)])], [Clause('l', [AVar('x'), AVar('v')])]),
                    Rule([Head('cnt', [V('n')])], [Agg('n', 'count', [], 'l', [AWild(), AWild()], None, '(n as i32)', int)]),
                    Rule([Head('hi', [V('x')])], [Clause('l', [AVar('x'), AVar('v')], [If(Cmp('>=', V('v'), K(30)))])]),
                    ])

    def inputs(rng):
        n = rng.choice([30, 300, 1200])
        rows = [('big', (i, (i * 37) % 29)) for i in range(n)]
        rng.shuffle(rows)
        return rows
    return 'funnel_lat', prog, ['big'], inputs


def neg_agg_chain(rng):
    """aggregates at several depths of the stratum order, aggregated relation produced by a recursive stratum"""
    prog = Program([Rel('edge', [T.I32, T.I32]), Rel('path', [T.I32, T.I32]), Rel('node', [T.I32]), Rel('deg', [T.I32, T.I32]),
                    Rel('unreach', [T.I32, T.I32]), Rel('maxdeg', [T.I32]), Rel('top', [T.I32]), Rel('nuntop', [T.I32])],
                   [Rule([Head('path', [V('x'), V('y')])], [Clause('edge', [AVar('x'), AVar('y')])]),
                    Rule([Head('path', [V('x'), V('z')])], [Clause('path', [AVar('x'), AVar('y')]), Clause('edge', [AVar('y'), AVar('z')])]),
                    Rule([Head('node', [V('x')]), Head('node', [V('y')])], [Clause('edge', [AVar('x'), AVar('y')])]),
                    Rule([Head('deg', [V('x'), V('n')])], [Clause('node', [AVar('x')]), Agg('n', 'count', [], 'path', [AVar('x'), AWild()], None, '(n as i32)', int)]),
                    Rule([Head('unreach', [V('x'), V('y')])], [Clause('node', [AVar('x')]), Clause('node', [AVar('y')]), Neg('path', [AVar('x'), AVar('y')])]),
                    Rule([Head('maxdeg', [V('m')])], [Agg('m', 'max', ['d'], 'deg', [AWild(), AVar('d')])]),
                    Rule([Head('top', [V('x')])], [Clause('maxdeg', [AVar('m')]), Clause('deg', [AVar('x'), AVar('m')])]),
                    Rule([Head('nuntop', [V('n')])], [Clause('top', [AVar('t')]), Agg('n', 'count', [], 'unreach', [AVar('t'), AWild()], None, '(n as i32)', int)]),
                    ])

    def inputs(rng):
        n = rng.choice([3, 5, 8])
        e = _graph(rng, n, rng.randrange(n - 1, 2 * n))
        return [('edge', t) for t in e]
    return 'neg_agg_chain', prog, ['edge'], inputs


def lat_contention(rng):
    """every input row improves the same K lattice keys: workers constantly join different values into the same rows
    (atomicity of the read-join-write on an existing row); the lattice type passes through perturbation points"""
    nk = rng.choice([3, 16, 64])
    prog = Program([Rel('a', [T.I32]), Rel('best', [T.I32, T.SLOWMAX], is_lat=True), Rel('lo', [T.I32, DUALI], is_lat=True), Rel('top', [T.I32])],
                   [Rule([Head('best', [V('k'), Wrap('vmon::val::SlowMax(%s)', V('x'))]), Head('lo', [V('k'), Dual(V('x'))])],
                         [Clause('a', [AVar('x')]), For('k', Range(K(0), K(nk)))])] +
                   [Rule([Head('top', [V('k')])], [Clause('best', [AVar('k'), AVar('v')], [If(Cmp('>=', Wrap('%s.0', V('v')), K(100)))])])])

    def inputs(rng):
        n = rng.choice([40, 300, 1500])
        vals = rng.sample(range(0, 5000), n)
        return [('a', (v,)) for v in vals]
    return 'lat_contention', prog, ['a'], inputs


def noindex_cycle(rng):
    """three mutually recursive relations, each scanned through its no-column index and (except the seeded one) empty when
    run() starts: their index objects are the ones created at construction time, in whatever pool was current then"""
    M = rng.choice([31, 61, 97])
    def y2(e):
        return e
    prog = Program([Rel('p', [T.I32, T.I32]), Rel('q', [T.I32, T.I32]), Rel('r', [T.I32, T.I32]), Rel('cnt', [T.I32])],
                   [Rule([Head('q', [V('x'), Bin('+', Bin('*', V('y'), K(2), M), K(1), M)])], [Clause('p', [AVar('x'), AVar('y')])]),
                    Rule([Head('q', [V('x'), Bin('*', V('y'), K(2), M)])], [Clause('p', [AVar('x'), AVar('y')])]),
                    Rule([Head('r', [V('x'), Bin('+', V('y'), K(5), M)])], [Clause('q', [AVar('x'), AVar('y')])]),
                    Rule([Head('p', [V('x'), Bin('*', V('y'), K(3), M)])], [Clause('r', [AVar('x'), AVar('y')])]),
                    Rule([Head('cnt', [V('n')])], [Agg('n', 'count', [], 'r', [AWild(), AWild()], None, '(n as i32)', int)])])

    def inputs(rng):
        k = rng.choice([3, 20, 60])
        return [('p', (x, 1)) for x in range(k)]
    return 'noindex_cycle', prog, ['p'], inputs


def lat_many_keys(rng):
    """thousands of lattice keys, each derived a few times within one iteration by rules running in parallel: first insertions
    of keys land in shards that other workers are writing to at that moment (lookups in the unfrozen `new` index race with
    inserts of *other* keys, table growth included)"""
    prog = Program([Rel('src', [T.I32, T.I32]), Rel('src2', [T.I32, T.I32]), Rel('best', [T.I32, MAXI], is_lat=True), Rel('lo', [T.I32, DUALI], is_lat=True),
                    Rel('cnt', [T.I32]), Rel('cntlo', [T.I32])],
                   [Rule([Head('best', [V('k'), V('v')]), Head('lo', [V('k'), Dual(V('v'))])], [Clause('src', [AVar('k'), AVar('v')])]),
                    Rule([Head('best', [V('k'), V('v')])], [Clause('src2', [AVar('k'), AVar('v')])]),
                    Rule([Head('cnt', [V('n')])], [Agg('n', 'count', [], 'best', [AWild(), AWild()], None, '(n as i32)', int)]),
                    Rule([Head('cntlo', [V('n')])], [Agg('n', 'count', [], 'lo', [AWild(), AWild()], None, '(n as i32)', int)])])

    def inputs(rng):
        nk = rng.choice([200, 2000, 6000])
        per = rng.choice([2, 3, 6])
        rows = []
        for k in range(nk):
            for v in rng.sample(range(CAP), per):
                rows.append(('src', (k, v)))
            if rng.random() < 0.3:
                rows.append(('src2', (k, rng.randrange(CAP))))
        rng.shuffle(rows)
        return rows
    return 'lat_many_keys', prog, ['src', 'src2'], inputs


def set_reach(rng):
    """for every node the set of start nodes that reach it (a Set lattice propagated along the edges): rows are improved in
    place many times inside the recursive stratum, by sets that are supersets / subsets / incomparable, in an order that
    depends on the order of the rules and of the input tuples"""
    rules = [Rule([Head('srcs', [V('n'), SetSingle(V('n'))])], [Clause('start', [AVar('n')])]),
             Rule([Head('srcs', [V('m'), V('s')])], [Clause('srcs', [AVar('n'), AVar('s')]), Clause('edge', [AVar('n'), AVar('m')])]),
             Rule([Head('srcs', [V('m'), V('s')])], [Clause('back', [AVar('m'), AVar('n')]), Clause('srcs', [AVar('n'), AVar('s')])]),
             Rule([Head('tot', [V('s')])], [Clause('srcs', [AWild(), AVar('s')])])]
    for c in range(3):
        rules.append(Rule([Head('has', [V('n'), K(c)])], [Clause('srcs', [AVar('n'), AVar('s')], [If(SetContains(V('s'), c))])]))
    prog = Program([Rel('start', [T.I32]), Rel('edge', [T.I32, T.I32]), Rel('back', [T.I32, T.I32]), Rel('srcs', [T.I32, T.SET_U8], is_lat=True),
                    Rel('tot', [T.SET_U8], is_lat=True), Rel('has', [T.I32, T.I32])], rules)

    def inputs(rng):
        n = rng.choice([4, 6, 9, 14])
        e = _graph(rng, n, rng.randrange(n - 1, 2 * n + 1))
        rows = [('edge', t) if rng.random() < 0.7 else ('back', (t[1], t[0])) for t in e]
        rows += [('start', (x,)) for x in rng.sample(range(n), rng.randrange(1, min(n, 5)))]
        rng.shuffle(rows)
        return rows
    return 'set_reach', prog, ['start', 'edge', 'back'], inputs


def lat_probe(rng):
    """readers of a finished lattice that bind its lattice column by value: negation, count and a plain clause (finding F22:
    not part of ALL, used by C04 only, where its failures are matched against the finding's signature)"""
    prog = Program([Rel('src', [T.I32, T.I32]), Rel('probe', [T.I32, T.I32]), Rel('best', [T.I32, MAXI], is_lat=True), Rel('lo', [T.I32, DUALI], is_lat=True),
                    Rel('nothit', [T.I32, T.I32]), Rel('nothit_lo', [T.I32, T.I32]), Rel('cnt', [T.I32, T.I32, T.I32]), Rel('hit', [T.I32, T.I32]),
                    Rel('l3', [T.I32, T.I32, MAXI], is_lat=True), Rel('hit3', [T.I32, T.I32]), Rel('nothit3', [T.I32, T.I32])],
                   [Rule([Head('best', [V('k'), V('v')]), Head('lo', [V('k'), Dual(V('v'))])], [Clause('src', [AVar('k'), AVar('v')])]),
                    Rule([Head('nothit', [V('k'), V('v')])], [Clause('probe', [AVar('k'), AVar('v')]), Neg('best', [AVar('k'), AVar('v')])]),
                    Rule([Head('nothit_lo', [V('k'), V('v')])], [Clause('probe', [AVar('k'), AVar('v')]), Neg('lo', [AVar('k'), AExpr(Dual(V('v')))])]),
                    Rule([Head('cnt', [V('k'), V('v'), V('n')])], [Clause('probe', [AVar('k'), AVar('v')]),
                                                                  Agg('n', 'count', [], 'best', [AVar('k'), AVar('v')], None, '(n as i32)', int)]),
                    Rule([Head('hit', [V('k'), V('v')])], [Clause('probe', [AVar('k'), AVar('v')]), Clause('best', [AVar('k'), AVar('v')])]),
                    # an index with the lattice column but not all columns keeps the keys of superseded values
                    Rule([Head('l3', [V('k'), Bin('+', V('k'), V('v'), 2), V('v')])], [Clause('src', [AVar('k'), AVar('v')])]),
                    Rule([Head('hit3', [V('k'), V('v')])], [Clause('probe', [AVar('k'), AVar('v')]), Clause('l3', [AVar('k'), AWild(), AVar('v')])]),
                    Rule([Head('nothit3', [V('k'), V('v')])], [Clause('probe', [AVar('k'), AVar('v')]), Neg('l3', [AVar('k'), AWild(), AVar('v')])])])

    def inputs(rng):
        nk = rng.choice([1, 3, 6])
        rows = [('src', (rng.randrange(nk), rng.randrange(CAP))) for _ in range(rng.randrange(1, 3 * nk + 1))]
        rows += [('probe', (rng.randrange(nk + 1), rng.randrange(CAP))) for _ in range(rng.randrange(1, 12))]
        rows += [('probe', t) for r, t in rows if r == 'src' and rng.random() < 0.6]
        rows = list(dict.fromkeys(rows))
        rng.shuffle(rows)
        return rows
    return 'lat_probe', prog, ['src', 'probe'], inputs


def agg_repeated(rng):
    """an aggregated variable repeated inside the aggregated clause is an equality constraint on those columns (finding F26);
    used by C04"""
    prog = Program([Rel('bar', [T.I32, T.I32]), Rel('t3', [T.I32, T.I32, T.I32]), Rel('key', [T.I32]),
                    Rel('s', [T.I32]), Rel('mx', [T.I32, T.I32]), Rel('mn', [T.I32]), Rel('cnt', [T.I32, T.I32])],
                   [Rule([Head('s', [V('t')])], [Agg('t', 'sum', ['y'], 'bar', [AVar('y'), AVar('y')])]),
                    Rule([Head('mx', [V('k'), V('m')])], [Clause('key', [AVar('k')]), Agg('m', 'max', ['y'], 't3', [AVar('k'), AVar('y'), AVar('y')])]),
                    Rule([Head('mn', [V('m')])], [Agg('m', 'min', ['y'], 't3', [AVar('y'), AWild(), AVar('y')])]),
                    Rule([Head('cnt', [V('k'), V('n')])], [Clause('key', [AVar('k')]),
                                                          Agg('n', 'count', [], 't3', [AVar('k'), AVar('k'), AWild()], None, '(n as i32)', int)])])

    def inputs(rng):
        d = rng.choice([3, 4, 6])
        rows = [('bar', (rng.randrange(d), rng.randrange(d))) for _ in range(rng.randrange(0, 3 * d))]
        rows += [('t3', (rng.randrange(d), rng.randrange(d), rng.randrange(d))) for _ in range(rng.randrange(0, 5 * d))]
        rows += [('key', (k,)) for k in rng.sample(range(d), rng.randrange(1, d + 1))]
        rows = list(dict.fromkeys(rows))
        rng.shuffle(rows)
        return rows
    return 'agg_repeated', prog, ['bar', 't3', 'key'], inputs


def tc_self(rng):
    """non-linear transitive closure over a single relation that holds its own input: under ascent_run! the only initialised relation
    is read by the stratum that derives it and by nothing else"""
    prog = Program([Rel('path', [T.I32, T.I32])],
                   [Rule([Head('path', [V('x'), V('z')])], [Clause('path', [AVar('x'), AVar('y')]), Clause('path', [AVar('y'), AVar('z')])])])

    def inputs(rng):
        n = rng.choice([4, 7, 12])
        return [('path', t) for t in _graph(rng, n, rng.randrange(n - 1, 2 * n))]
    return 'tc_self', prog, ['path'], inputs


ALL = [tc, sp_count, funnel_rel, funnel_lat, neg_agg_chain, lat_contention, noindex_cycle, lat_many_keys, set_reach]


def write_only_head(rng):
    """a looping stratum with head relations that no rule of the stratum reads: a counter walks round a cycle of n values and every step also
    derives a bucket tuple, so the same bucket tuple is derived again every 2-3 iterations (and input rows of the bucket relations are re-derived
    in late iterations). The write-only heads still take part in the new / delta / total protocol: a tuple already in total must not be pushed again."""
    n = rng.choice([7, 12, 20])
    prog = Program([Rel('seed', [T.I32]), Rel('step', [T.I32]), Rel('bucket', [T.I32]), Rel('bucket2', [T.I32, T.I32]), Rel('late', [T.I32])],
                   [Rule([Head('step', [V('x')])], [Clause('seed', [AVar('x')])]),
                    Rule([Head('step', [Bin('+', V('x'), K(1), n)]), Head('bucket', [Bin('+', V('x'), K(0), 3)]),
                          Head('bucket2', [Bin('+', V('x'), K(0), 2), Bin('+', V('x'), K(0), 3)])], [Clause('step', [AVar('x')])]),
                    Rule([Head('late', [V('b')])], [Clause('bucket', [AVar('b')]), Clause('bucket2', [AWild(), AVar('b')])])])

    def inputs(rng):
        rows = [('seed', (x,)) for x in rng.sample(range(n), rng.choice([1, 1, 2]))]
        rows += [('bucket', (b,)) for b in rng.sample(range(3), rng.randrange(0, 3))]
        rows += [('bucket2', (rng.randrange(2), rng.randrange(3))) for _ in range(rng.randrange(0, 3))]
        rows = list(dict.fromkeys(rows))
        rng.shuffle(rows)
        return rows
    return 'write_only_head', prog, ['seed', 'bucket', 'bucket2'], inputs
