"""C11 — a relation tagged #[ds(trrel)] behaves as its explicit closure."""
from checks import byods_common as BC

LEVEL = 'exploration'


def run(ctx, only=None):
    BC.run_provider(ctx, 'trrel', False, only)


def replay(ctx, path):
    BC.replay_provider(ctx, 'trrel', False, path)
