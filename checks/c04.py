"""C04 — negation and aggregation see the complete relation, each tuple once."""
import json
import random

from vlib import core, pipeline as P, diffrun
from vgen import gen as G, gen2 as G2, emit as E, corpus

LEVEL = 'exploration'


def sizes(ctx):
    return dict(programs=96, inputs=24) if ctx.tier == 'quick' else dict(programs=640, inputs=100)


def has_f22_shape(prog):
    """a negated / aggregated clause over a lattice whose lattice column is bound by value (finding F22)"""
    from vgen.ast import Neg, Agg, AWild, AVar
    for r in prog.rules:
        for it in r.body:
            if isinstance(it, (Neg, Agg)) and prog.rel(it.rel).is_lat:
                last = it.args[-1]
                if isinstance(last, AWild) or (isinstance(it, Agg) and isinstance(last, AVar) and last.name in it.bound):
                    continue
                return True
    return False


def gen_cases(ctx, n_programs, n_inputs):
    cases = []
    # readers binding the lattice column of a finished lattice by value (the family that shows finding F22)
    rng = random.Random(ctx.rng.getrandbits(48))
    name, prog, input_rels, mk = corpus.lat_probe(rng)
    vs = [E.Variant('ser', prog, 'ascent'), E.Variant('par', prog, 'ascent_par')]
    case = P.Case('k_' + name, prog, vs, meta={'dom': 12, 'aggs': ['count', 'neg']})
    for ii in range(max(4, n_inputs // 3)):
        rows = mk(rng)
        for v in vs:
            case.jobs.append(P.Job('%s_i%d_%s' % (case.name, ii, v.name), case, v, rows))
    cases.append(case)
    rng = random.Random(ctx.rng.getrandbits(48))
    name, prog, input_rels, mk = corpus.agg_repeated(rng)
    vs = [E.Variant('ser', prog, 'ascent'), E.Variant('par', prog, 'ascent_par'), E.Variant('run', prog, 'ascent_run')]
    case = P.Case('k_' + name, prog, vs, meta={'dom': 6, 'aggs': ['sum', 'max', 'min', 'count']})
    for ii in range(max(4, n_inputs // 3)):
        rows = mk(rng)
        for v in vs:
            case.jobs.append(P.Job('%s_i%d_%s' % (case.name, ii, v.name), case, v, rows))
    cases.append(case)
    while len(cases) < n_programs:
        rng = random.Random(ctx.rng.getrandbits(48))
        if len(cases) % 4 == 3:
            # enumerated shapes `agg w = max|min|second_highest(q) in c(q), cl1, cl2` with w used by the clauses: the aggregate's
            # result is bound BEFORE the join, whatever the size ratio of the joined relations
            dom = rng.choice([3, 4])
            prog, input_rels, _ = G.enumerated_agg_program(rng, nrules=12, dom=dom)
            assert not G.check_scoping(prog), (G.check_scoping(prog), prog.text())
            name = 'c%d' % len(cases)
            v = E.Variant('v0', prog, rng.choice(['ascent', 'ascent', 'ascent_par']))
            case = P.Case(name, prog, [v], meta={'dom': dom, 'aggs': ['leading_agg_shapes']})
            for ii in range(n_inputs):
                case.jobs.append(P.Job('%s_i%d' % (name, ii), case, v, [r for r in G.enumerated_input(rng, dom) if r[0] != 'h'] + [('c', (x,)) for x in rng.sample(range(dom), rng.randrange(0, dom))]))
            for j in case.jobs:
                j.input_rows = list(dict.fromkeys(j.input_rows))
            cases.append(case)
            continue
        cfg = G2.default_cfg(lattices=rng.random() < 0.5, neg=True, agg=True, p_lattice=0.3, p_neg=0.25, p_agg=0.3)
        if len(cases) % 4 == 1:
            # "any subset of the aggregated relation's columns bound" includes the lattice column of a (lower-stratum) lattice
            cfg = G2.default_cfg(lattices=True, neg=True, agg=True, p_lattice=0.5, p_neg=0.35, p_agg=0.35, bind_lat_col=0.6)
        cfg.dom = rng.choice([3, 4, 5])
        cfg.n_rels, cfg.n_rules = (3, 6), (3, 8)
        prog, input_rels = G2.gen_program(rng, cfg)
        from vgen.ast import Neg, Agg
        if not any(isinstance(i, (Neg, Agg)) for r in prog.rules for i in r.body):
            continue
        assert not G.check_scoping(prog), (G.check_scoping(prog), prog.text())
        name = 'c%d' % len(cases)
        kind = rng.choice(['ascent', 'ascent', 'ascent_par'])
        v = E.Variant('v0', prog, kind)
        aggs = sorted(set((i.agg if isinstance(i, Agg) else 'neg') for r in prog.rules for i in r.body if isinstance(i, (Neg, Agg))))
        case = P.Case(name, prog, [v], meta={'dom': cfg.dom, 'aggs': aggs, 'lattice_column_bound_by_value': has_f22_shape(prog)})
        loadable = [r.name for r in prog.rels]
        for ii in range(n_inputs):
            targets = input_rels if rng.random() < 0.6 else loadable
            # aggregated relations never receive caller-made duplicate tuples (what a duplicate counts as is unspecified)
            rows = G.gen_input(rng, prog, targets, cfg.dom)
            seen, uniq = set(), []
            for r in rows:
                if r not in seen:
                    seen.add(r)
                    uniq.append(r)
            case.jobs.append(P.Job('%s_i%d' % (name, ii), case, v, uniq))
        cases.append(case)
    return cases


def run(ctx, only=None):
    sz = sizes(ctx)
    cases = gen_cases(ctx, sz['programs'], sz['inputs'])
    if only:
        cases = [c for c in cases if c.name == only]
    ctx.rule = ('random stratified programs (1-4 levels) with !r(..) and agg over relations and lattices: count, sum, min, max, mean, percentile(p<100), not, '
                'user aggregators returning 0 / 1 / up to 3 values / over two columns; any subset of the aggregated relation\'s columns bound, wildcarded or aggregated; '
                'serial and parallel macros; inputs without duplicate tuples. Oracle: reference with independent relation-level stratification and its own aggregate '
                'definitions over distinct tuples. non-trivial = reference derived >= 1 fact beyond the input through a rule with >= 2 body items')
    ctx.assumptions = ['reference evaluator (independent stratification, own aggregates)']
    per = {}
    for c in cases:
        for a in c.meta['aggs']:
            per[a] = per.get(a, 0) + 1
    ctx.cov['programs_per_aggregator'] = per
    diffrun.run_cases(ctx, cases)


def replay(ctx, path):
    w = json.load(open(path))
    ctx.seed, ctx.tier = w.get('seed', ctx.seed), w.get('tier', ctx.tier)
    ctx.rng = random.Random(core.stable_hash('%s/%d' % (ctx.prop, ctx.seed)))
    run(ctx, only=w['case'])
