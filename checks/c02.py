"""C02 — parallel evaluation equals serial evaluation under every schedule.

Every case is compiled as ascent!, ascent_par!, ascent_par! + #![inter_rule_parallelism] and ascent_run_par!;
the parallel variants run under a matrix of rayon pool sizes, repeated with armed perturbation points (hook H2)
and background spinner threads; every repetition is compared with the reference (hence with the serial result).
Hook counters (H3) and the number of distinct row orders observed are reported as schedule-diversity evidence."""
import json
import os
import random

from vlib import core, pipeline as P, diffrun, sanitize
from vgen import gen as G, gen2 as G2, emit as E, corpus

LEVEL = 'exploration'


def sizes(ctx):
    if ctx.tier == 'quick':
        return dict(programs=20, inputs=6, pools=[1, 2, 4, 8], pools_per_input=2, reps=4, corpus_inputs=4)
    return dict(programs=160, inputs=16, pools=[1, 2, 3, 4, 8, 16, 32], pools_per_input=3, reps=12, corpus_inputs=12)


def variants_for(prog, run_ok=True):
    vs = [E.Variant('ser', prog, 'ascent'), E.Variant('par', prog, 'ascent_par'),
          E.Variant('pari', prog, 'ascent_par', extra_attrs=['inter_rule_parallelism'])]
    if run_ok:
        vs.append(E.Variant('runpar', prog, 'ascent_run_par'))
    return vs


def add_jobs(ctx, rng, case, rows, sz, tag):
    ser = case.variant('ser')
    case.jobs.append(P.Job('%s_%s_ser' % (case.name, tag), case, ser, rows))
    for v in case.variants:
        if v.name == 'ser':
            continue
        for pool in rng.sample(sz['pools'], sz['pools_per_input']):
            params = {'pool': pool, 'rep': sz['reps'], 'perturb': rng.randrange(1, 1 << 30)}
            if rng.random() < 0.5:
                params['spin'] = 4
            case.jobs.append(P.Job('%s_%s_%s_p%d' % (case.name, tag, v.name, pool), case, v, rows, params=params))


def gen_cases(ctx):
    sz = sizes(ctx)
    cases = []
    # corpus families (collision-heavy)
    for f in corpus.ALL:
        rng = random.Random(ctx.rng.getrandbits(48))
        name, prog, input_rels, mk = f(rng)
        case = P.Case('k_' + name, prog, variants_for(prog), meta={'kind': 'corpus:' + name})
        for ii in range(sz['corpus_inputs']):
            add_jobs(ctx, rng, case, mk(rng), sz, 'i%d' % ii)
        cases.append(case)
    n = 0
    while n < sz['programs']:
        rng = random.Random(ctx.rng.getrandbits(48))
        cfg = G2.default_cfg(lattices=True, neg=True, agg=True)
        cfg.dom = rng.choice([3, 4, 5])
        cfg.n_rels, cfg.n_rules = (3, 6), (3, 8)
        prog, input_rels = G2.gen_program(rng, cfg)
        prog = G2.add_probes(prog, rng, 2)
        assert not G.check_scoping(prog), (G.check_scoping(prog), prog.text())
        case = P.Case('c%d' % n, prog, variants_for(prog), meta={'kind': 'random'})
        loadable = [r.name for r in prog.rels if not r.name.startswith('pb')]
        for ii in range(sz['inputs']):
            targets = input_rels if rng.random() < 0.6 else loadable
            rows = G.gen_input(rng, prog, targets, cfg.dom)
            seen, uniq = set(), []
            for r in rows:       # no caller-made duplicates: the programs aggregate
                if r not in seen:
                    seen.add(r)
                    uniq.append(r)
            add_jobs(ctx, rng, case, uniq, sz, 'i%d' % ii)
        cases.append(case)
        n += 1
    return cases


COUNTER_NAMES = ['rel_insert_lost_race', 'rel_insert_won', 'lat_recheck_hit_under_mutex', 'lat_row_created', 'lat_join_changed', 'lat_join_unchanged']


def run(ctx, only=None):
    cases = gen_cases(ctx)
    if only:
        cases = [c for c in cases if c.name == only]
    ctx.rule = ('random stratified programs (relations, lattices, negation, aggregation, multiplicity probes) and collision-heavy corpus families '
                '(funnels with thousands of derivations per head tuple / lattice key, shortest paths + aggregates over the lattice), each compiled as ascent!, '
                'ascent_par!, ascent_par!+inter_rule_parallelism, ascent_run_par!; parallel variants run in rayon pools of several sizes, each repeated with '
                'different perturbation seeds (yield / spin / sleep at hook sites between critical sections) and spinner threads. case = (variant, input, pool); '
                'every repetition compared with the reference. non-trivial = reference non-trivial; distinct = distinct (macro, program, input, pool, seed)')
    ctx.assumptions = ['reference evaluator', 'schedules are sampled (perturbation + pool sizes + repetition), not enumerated']
    totals = [0] * 16
    sites = [0] * 16
    orders = {'jobs_with_more_than_one_row_order': 0, 'max_distinct_row_orders_in_one_job': 0, 'parallel_jobs': 0, 'repetitions': 0}

    def on_ok(c, j, jr, refs):
        if j.variant.par and jr.stats:
            cs = jr.stats.get('counters', [])
            for i, x in enumerate(cs[:16]):
                totals[i] += x
            for i, x in enumerate(jr.stats.get('sites', [])[:16]):
                sites[i] += x
            orders['parallel_jobs'] += 1
            orders['repetitions'] += jr.stats.get('reps', 0)
            o = jr.stats.get('orders', 1)
            if o > 1:
                orders['jobs_with_more_than_one_row_order'] += 1
            orders['max_distinct_row_orders_in_one_job'] = max(orders['max_distinct_row_orders_in_one_job'], o)

    diffrun.run_cases(ctx, cases, on_ok=on_ok, per_job_timeout=240)
    ctx.cov['hook_counters'] = {n: totals[i] for i, n in enumerate(COUNTER_NAMES)}
    ctx.cov['perturbation_site_hits'] = sites[:13]
    ctx.cov.update(orders)
    if (ctx.tier == 'thorough' or os.environ.get('VERIF_SAN')) and not only:
        sanitizer_passes(ctx, cases)


def small_rows(mk, rng, limit):
    for _ in range(50):
        rows = mk(rng)
        if len(rows) <= limit:
            return rows
    return rows[:limit]


def sanitizer_passes(ctx, cases):
    """TSan (perturbation disarmed: sleeps would only hide races from a happens-before detector) on the corpus families and a
    sample of the random programs; Miri (tree borrows, 3 rayon threads) on three tiny parallel programs."""
    rng = random.Random(ctx.rng.getrandbits(48))
    san = []
    pick = [c for c in cases if c.name.startswith('k_')] + [c for c in cases if not c.name.startswith('k_')][:12]
    for c in pick:
        vs = [v for v in c.variants if v.par]
        c2 = P.Case(c.name + 'ts', c.ref_prog, vs, meta=c.meta)
        inputs = []
        for j in c.jobs:
            if j.variant.name == 'ser' and len(j.input_rows) <= 400:
                inputs.append(j.input_rows)
        for ii, rows in enumerate(inputs[:3]):
            for v in vs:
                c2.jobs.append(P.Job('%s_i%d_%s' % (c2.name, ii, v.name), c2, v, rows, params={'pool': rng.choice([2, 4, 8]), 'rep': 2}))
        if c2.jobs:
            san.append(c2)
    ctx.cov['tsan'] = sanitize.run_cases_san(ctx, san, 'tsan', per_job_timeout=600)
    # Miri
    mc = []
    for f in [corpus.tc, corpus.sp_count, corpus.funnel_lat]:
        name, prog, input_rels, mk = f(rng)
        v = E.Variant('par', prog, 'ascent_par')
        c = P.Case('m_' + name, prog, [v], meta={'kind': 'miri'})
        rows = small_rows(mk, rng, 10)
        c.jobs.append(P.Job('m_%s_0' % name, c, v, rows, params={'pool': 3}))
        mc.append(c)
    reports = sanitize.miri_workspace(ctx, mc)
    held = 0
    for c in mc:
        for j in c.jobs:
            if j.result and j.result.reps and not j.result.panics:
                db, _ = __import__('vgen.ref', fromlist=['x']).evaluate(c.ref_prog, G.input_to_dict(j.input_rows))
                d = P.compare_step_to_db(c.ref_prog, j.result.reps[0][1][-1], db)
                if d:
                    ctx.violation('miri_' + j.id, {'case': c.name, 'summary': 'result under Miri differs: %s' % json.dumps(d)[:300]}, {'kind': 'diff'})
                else:
                    held += 1
                    ctx.evaluations += 1
    for (si, in_flight, err) in reports:
        if err.startswith('INCOMPLETE'):
            ctx.inconc('Miri run incomplete (shard %d): %s' % (si, err[-300:]))
        elif '/repo/' in err:
            ctx.violation('miri_ub_%d' % si, {'case': 'miri', 'report': err.split('\n')[-60:], 'summary': 'Miri: undefined behaviour with a frame in /repo'}, {'kind': 'miri_ub'})
        else:
            ctx.inconc('Miri report without a /repo frame (dependency): %s' % err[-300:])
    ctx.cov['miri'] = {'programs': len(mc), 'executions_held': held, 'reports': len(reports), 'flags': sanitize.MIRI_FLAGS, 'threads': 3}


def replay(ctx, path):
    w = json.load(open(path))
    ctx.seed, ctx.tier = w.get('seed', ctx.seed), w.get('tier', ctx.tier)
    ctx.rng = random.Random(core.stable_hash('%s/%d' % (ctx.prop, ctx.seed)))
    run(ctx, only=w['case'])
