"""C18 — public union-find structures agree with a reference closure after any history (online comparison)."""
from vlib import core, libmon

LEVEL = 'exploration'


def run(ctx, only=None):
    bindir = libmon.build()
    args = ['--seed=%d' % ctx.seed] + (['--len=4', '--uflen=3', '--random=1500'] if ctx.tier == 'quick' else ['--len=5', '--uflen=4', '--random=60000'])
    recs, rc, err = libmon.run_bin(bindir, 'c18_uf', args)
    ctx.rule = ('TrRelUnionFind: ALL add-sequences of length <= L over 4 elements (16 pairs per step, incl. repeated pairs, self pairs, back edges over merged classes) and random '
                'histories (3-40 elements, 10-300 adds, biased to close cycles); after EVERY add: contains for all pairs, iter_all (set + no duplicates), set_of, rev_set_of, '
                'count_exact vs a Floyd-Warshall reflexive-transitive closure, plus assert_disjoint_invariant / assert_set_connections_dominant_sets. UnionFind: ALL sequences of '
                'add / find_item / union_add / unsafe find+union on valid ids of length <= L over 3 items and random ones; after every op: same-class for all pairs vs naive '
                'classes, len, is_empty and the structure\'s own O(n^2) consistency check (hook H4). Release build with debug assertions on. '
                'case = one history; non-trivial = history with >= 2 operations; distinct = distinct histories')
    ctx.assumptions = ['reference closures in harness/libmon/src/bin/c18_uf.rs']
    if not any(r.get('done') for r in recs):
        ctx.inconc('monitor binary did not finish (rc=%s): %s' % (rc, err[-300:]))
    for r in recs:
        if 'histories' in r:
            ctx.evaluations += r['histories']
            ctx.nontrivial_counted += r['histories_with_2_or_more_operations']
            ctx.cov.update(r)
            ctx.sample(r)
    for v in [r for r in recs if r.get('violation')]:
        ctx.violation('uf_%s' % v['what'], {'case': v['what'], 'witness': v['witness'], 'summary': '%s: %s' % (v['what'], v['witness'][:300])}, {'what': v['what']})


def replay(ctx, path):
    run(ctx)
