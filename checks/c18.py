"""C18 — public union-find structures agree with a reference closure after any history (online comparison)."""
import os

from vlib import core, libmon, sanitize

LEVEL = 'exploration'


def run(ctx, only=None):
    bindir = libmon.build()
    args = ['--seed=%d' % ctx.seed] + (['--len=4', '--uflen=3', '--random=1500'] if ctx.tier == 'quick' else ['--len=5', '--uflen=4', '--random=30000'])
    recs, rc, err = libmon.run_bin_sharded(bindir, 'c18_uf', args)      # one OS process per core, histories split by index
    ctx.cov['processes'] = core.NCPU
    ctx.rule = ('TrRelUnionFind: ALL add-sequences of length <= L over 4 elements (16 pairs per step, incl. repeated pairs, self pairs, back edges over merged classes) and random '
                'histories (3-40 elements, 10-300 adds, biased to close cycles); after EVERY add: contains for all pairs, iter_all (set + no duplicates), set_of, rev_set_of, '
                'count_exact vs a Floyd-Warshall reflexive-transitive closure, plus assert_disjoint_invariant / assert_set_connections_dominant_sets. UnionFind: ALL sequences of '
                'add / find_item / union_add / unsafe find+union on valid ids of length <= L over 3 items and random ones; after every op: same-class for all pairs vs naive '
                'classes, len, is_empty and the structure\'s own O(n^2) consistency check (hook H4). Release build with debug assertions on. '
                'case = one history; non-trivial = history with >= 2 operations; distinct = distinct histories')
    ctx.assumptions = ['reference closures in harness/libmon/src/bin/c18_uf.rs']
    if not any(r.get('done') for r in recs) and not libmon.report_crash(ctx, 'c18_uf', args, rc, err):
        ctx.inconc('monitor binary did not finish (rc=%s): %s' % (rc, err[-300:]))
    for r in recs:
        if 'histories' in r:
            ctx.evaluations += r['histories']
            ctx.nontrivial_counted += r['histories_with_2_or_more_operations']
            ctx.cov.update(r)
            ctx.sample(r)
    if ctx.tier == 'thorough' or os.environ.get('VERIF_SAN'):
        # Miri: unchecked indexing and Cell aliasing in uf.rs, hash-set juggling in trrel_union_find.rs (short histories)
        mrecs, ub = sanitize.miri_libmon(ctx, 'c18_uf', ['--miri=1'], timeout=3000)
        ctx.cov['miri'] = {'histories': sum(r.get('histories', 0) for r in mrecs), 'ub_report': bool(ub), 'flags': sanitize.MIRI_FLAGS}
        recs += [r for r in mrecs if r.get('violation')]
        if ub == 'timeout' or (not ub and not any(r.get('done') for r in mrecs)):
            ctx.inconc('Miri pass did not finish')
        elif ub and '/repo/' in ub:
            ctx.violation('miri_ub', {'case': 'miri', 'report': ub.split('\n')[-50:], 'summary': 'Miri: undefined behaviour in the union-find structures'}, {'kind': 'miri_ub'})
        elif ub:
            ctx.inconc('Miri error without a /repo frame: %s' % ub[-300:])
        # ASan on a larger random workload
        arecs, st = sanitize.libmon_san(ctx, 'asan', 'c18_uf', ['--len=3', '--uflen=3', '--random=200', '--seed=%d' % ctx.seed])
        ctx.cov['asan'] = dict(st, histories=sum(r.get('histories', 0) for r in arecs))
        recs += [r for r in arecs if r.get('violation')]
    for v in [r for r in recs if r.get('violation')]:
        ctx.violation('uf_%s' % v['what'], {'case': v['what'], 'witness': v['witness'], 'summary': '%s: %s' % (v['what'], v['witness'][:300])}, {'what': v['what']})


def replay(ctx, path):
    run(ctx)
