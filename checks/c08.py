"""C08 — in-program macros expand hygienically (metamorphic: macro program vs independent hand expansion).
Compiled by rustc (real spans): the hygiene code compares spans, which the pinned tests' proc_macro2 fallback makes all equal."""
import json
import random

from vlib import core, pipeline as P, diffrun, compilefail
from vgen import gen as G, emit as E, macros as M, xform as X
from vgen.ast import *

LEVEL = 'exploration'


def sizes(ctx):
    return dict(cases=80, inputs=14, recursive=12) if ctx.tier == 'quick' else dict(cases=640, inputs=50, recursive=60)


def call_stats(prog):
    st = {'macro_defs': len(prog.macros), 'invocations': 0, 'rules_invoking_same_macro_twice': 0, 'nested_invocations': 0, 'head_invocations': 0,
          'local_name_equals_callsite_name': 0}
    defs = {m.name: m for m in prog.macros}
    for m in prog.macros:
        for it in (m.body or []) + (m.heads or []):
            if isinstance(it, MacroCall):
                st['nested_invocations'] += 1
    for r in prog.rules:
        names = [it.name for it in r.body if isinstance(it, MacroCall)]
        st['invocations'] += len(names)
        if len(names) != len(set(names)):
            st['rules_invoking_same_macro_twice'] += 1
        st['head_invocations'] += sum(1 for h in r.heads if isinstance(h, MacroCall))
        site = set()
        for it in r.body:
            if isinstance(it, MacroCall):
                for a in it.args:
                    site |= a.vars()
            else:
                site |= set(it.binds())
        for n in set(names):
            locs = set()
            for it in defs[n].body or []:
                M.item_idents(it, locs)
            if any((not v.startswith('$')) and v in site for v in locs):
                st['local_name_equals_callsite_name'] += 1
    return st


def gen_cases(ctx):
    sz = sizes(ctx)
    cases = []
    n = 0
    tries = 0
    while n < sz['cases'] and tries < sz['cases'] * 30:
        tries += 1
        rng = random.Random(ctx.rng.getrandbits(48))
        dom = rng.choice([3, 4, 6])
        g = M.gen_screened_program(rng, dom)
        if g is None:
            continue
        prog, exp, input_rels = g
        vs = [E.Variant('mac', prog, 'ascent'), E.Variant('exp', exp, 'ascent'), E.Variant('macpar', prog, 'ascent_par')]
        case = P.Case('c%d' % n, exp, vs, meta={'kind': 'macro', 'stats': call_stats(prog)})
        for ii in range(sz['inputs']):
            rows = M.gen_screened_input(rng, exp, input_rels, dom)     # no duplicate rows: expansions have long bodies, duplicates multiply their cost
            for v in vs:
                case.jobs.append(P.Job('%s_i%d_%s' % (case.name, ii, v.name), case, v, rows))
        cases.append(case)
        n += 1
    # binders inside expressions of a macro body that carry the name of a call-site variable used in an `expr` argument (finding F25)
    for name, prog, input_rels in M.binder_capture_programs():
        rng = random.Random(ctx.rng.getrandbits(48))
        exp = M.Expander(prog.macros).expand_program(prog)
        vs = [E.Variant('mac', prog, 'ascent'), E.Variant('exp', exp, 'ascent'), E.Variant('macpar', prog, 'ascent_par')]
        case = P.Case('kb_' + name, exp, vs, meta={'kind': 'macro', 'stats': call_stats(prog), 'facts': {'known_shape': 'F25'}})
        for ii in range(4):
            rows = [('n', (x,)) for x in rng.sample(range(0, 9), rng.randrange(1, 5))]
            for v in vs:
                case.jobs.append(P.Job('%s_i%d_%s' % (case.name, ii, v.name), case, v, rows))
        cases.append(case)
    return cases


RECURSIVE = [
    # directly recursive body macro
    'relation e(i32, i32); relation o(i32, i32);\n macro m($x: ident, $y: ident) { e($x, z), m!(z, $y) }\n o(a, b) <-- m!(a, b);',
    # mutually recursive
    'relation e(i32, i32); relation o(i32, i32);\n macro m1($x: ident, $y: ident) { e($x, z), m2!(z, $y) }\n macro m2($x: ident, $y: ident) { e($x, w), m1!(w, $y) }\n o(a, b) <-- m1!(a, b);',
    # recursive through a disjunction
    'relation e(i32, i32); relation o(i32, i32);\n macro m($x: ident, $y: ident) { (e($x, $y) | m!($y, $x)) }\n o(a, b) <-- m!(a, b);',
    # recursive head macro
    'relation e(i32, i32); relation o(i32, i32);\n macro h($x: expr) { o($x, $x), h!($x) }\n h!(a) <-- e(a, _);',
    # mutually recursive head macros
    'relation e(i32, i32); relation o(i32, i32);\n macro h1($x: expr) { o($x, $x), h2!($x) }\n macro h2($x: expr) { h1!($x) }\n h1!(a) <-- e(a, _);',
    # recursion three levels deep
    'relation e(i32, i32); relation o(i32, i32);\n macro a($x: ident) { e($x, q), b!(q) }\n macro b($x: ident) { e($x, q), c!(q) }\n macro c($x: ident) { e($x, q), a!(q) }\n o(s, s) <-- a!(s);',
]


def run(ctx, only=None):
    sz = sizes(ctx)
    cases = gen_cases(ctx)
    if only:
        cases = [c for c in cases if c.name == only]
    ctx.rule = ('random programs with 1-5 in-program macros (ident / expr parameters; bodies with clauses, conditions, negation, disjunction, nested invocations whose arguments may be locals that only the nested invocation binds; head macros, '
                'nested head macros); macro-local names and call-site names drawn from the same identifiers so that they collide, and local names that differ by a trailing digit only (x, x1, x11); the same macro invoked several times in a rule. '
                'Each compared with an independent hand expansion (parameters substituted, every other identifier fresh per invocation) and with the reference. '
                'Plus self-referential macros (direct, mutual, through disjunction, in heads) that must be rejected by rustc within the watchdog. '
                'non-trivial = reference non-trivial; distinct = distinct (variant text, input)')
    ctx.assumptions = ['reference evaluator', 'vgen/macros.py expander implements the documented hygiene']
    tot = {}
    for c in cases:
        for k, v in c.meta['stats'].items():
            tot[k] = tot.get(k, 0) + v
    ctx.cov['macro_usage_in_corpus'] = tot
    diffrun.run_cases(ctx, cases, closure=False, per_job_timeout=60,
                      compile_fail_violation=lambda c, vname: vname in ('mac', 'macpar') and 'exp' not in c.build_failed)
    # recursion clause: compile-fail harness
    if not only:
        progs = []
        for i, text in enumerate(RECURSIVE):
            for macro in ['ascent', 'ascent_par', 'ascent_run']:
                progs.append(('rec%d_%s' % (i, macro), macro, text))
        res = compilefail.compile_many(ctx, progs[:sz['recursive']] if ctx.tier == 'quick' else progs)
        nrej = 0
        for (name, macro, text), r in zip(progs, res):
            ctx.evaluations += 1
            if r['status'] == 'rejected' and r['at_program']:
                nrej += 1
                ctx.add_nontrivial('recursive', name)
            elif r['status'] == 'inconclusive':
                ctx.inconc('recursive macro program %s: %s' % (name, r['detail'][:200]))
            else:
                ctx.violation('recursive_' + name, {'case': name, 'program': text.split('\n'), 'macro': macro, 'rustc': r,
                                                    'summary': 'self-referential macro not rejected cleanly: %s' % r['status']},
                              {'kind': 'recursive_macro', 'status': r['status']})
        ctx.cov['recursive_macro_programs_rejected'] = nrej


def replay(ctx, path):
    w = json.load(open(path))
    ctx.seed, ctx.tier = w.get('seed', ctx.seed), w.get('tier', ctx.tier)
    ctx.rng = random.Random(core.stable_hash('%s/%d' % (ctx.prop, ctx.seed)))
    run(ctx, only=w['case'])
