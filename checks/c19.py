"""C19 — index building blocks behave as multimaps through insert, merge and freeze (model-based monitor)."""
import os

from vlib import core, libmon, sanitize

LEVEL = 'exploration'


def run(ctx, only=None):
    bindir = libmon.build()
    args = ['--seed=%d' % ctx.seed] + (['--len=5', '--random=200', '--rounds=60'] if ctx.tier == 'quick' else ['--len=7', '--random=8000', '--rounds=3000'])
    recs, rc, err = libmon.run_bin(bindir, 'c19_index', args)
    ctx.rule = ('RelIndexType1, LatticeIndexType, RelFullIndexType, CRelIndex, CLatIndex, CRelFullIndex: ALL operation sequences of length <= L over {insert (2 keys x 2 values) '
                'into new, merge_delta_to_total_new_to_delta} and random sequences (1-8 keys, bursts giving delta:total size ratios on both sides of every size-based swap), reads on '
                'frozen / writes on unfrozen indices as generated code does; after every op: lookups of present and absent keys, full iteration, is_empty, freeze+unfreeze round trip, '
                'new empty after merge, vs BTreeMap models. RelNoIndexType / CRelNoIndex through insert + merge; RelIndexCombined vs the union of both sides. Concurrent: 2-32 rayon '
                'workers insert unique values into 1-4 hot and 64 cold keys of CRelIndex / CLatIndex / CRelNoIndex and race insert_if_not_present on CRelFullIndex (perturbation armed '
                'in half of the rounds); retained values, duplicates and exactly-one-winner per key checked. case = one sequence / round; non-trivial = >= 2 operations')
    ctx.assumptions = ['multimap / map models in harness/libmon/src/bin/c19_index.rs', 'on a key clash the full index only ever receives equal values (as from generated code)']
    if not any(r.get('done') for r in recs) and not libmon.report_crash(ctx, 'c19_index', args, rc, err):
        ctx.inconc('monitor binary did not finish (rc=%s): %s' % (rc, err[-300:]))
    for r in recs:
        if 'sequences' in r:
            ctx.evaluations += r['sequences']
            ctx.nontrivial_counted += r['sequences_with_2_or_more_operations'] + r['concurrent_rounds']
            ctx.cov.update(r)
            ctx.sample(r)
            if r['concurrent_rounds'] and r['insert_if_absent_lost_races'] == 0:
                ctx.inconc('no insert_if_not_present race was lost by any worker: the racy window was not exercised')
    if ctx.tier == 'thorough' or os.environ.get('VERIF_SAN'):
        # TSan on the concurrent rounds, perturbation disarmed
        trecs, st = sanitize.libmon_san(ctx, 'tsan', 'c19_index', ['--conc_only=1', '--noperturb=1', '--rounds=150', '--seed=%d' % ctx.seed])
        ctx.cov['tsan'] = dict(st, concurrent_rounds=sum(r.get('concurrent_rounds', 0) for r in trecs))
        recs += [r for r in trecs if r.get('violation')]
        if sanitize.statics_are_write_only():
            ctx.inconc('a suppressed statistics static is read somewhere')
        # Miri (tree borrows): _yield_write_shard, data_ptr() reads of frozen shards, DashMapViewParIter; tiny sizes, 3 threads
        mrecs, ub = sanitize.miri_libmon(ctx, 'c19_index', ['--miri=1', '--rounds=1', '--maxthreads=3', '--seed=%d' % ctx.seed], timeout=3000)
        ctx.cov['miri'] = {'sequences': sum(r.get('sequences', 0) for r in mrecs), 'ub_report': bool(ub), 'flags': sanitize.MIRI_FLAGS}
        recs += [r for r in mrecs if r.get('violation')]
        if ub == 'timeout' or (not ub and not any(r.get('done') for r in mrecs)):
            ctx.inconc('Miri pass did not finish')
        elif ub and '/repo/' in ub:
            ctx.violation('miri_ub', {'case': 'miri', 'report': ub.split('\n')[-50:], 'summary': 'Miri: undefined behaviour in the index types'}, {'kind': 'miri_ub'})
        elif ub:
            ctx.inconc('Miri error without a /repo frame: %s' % ub[-300:])
    for v in [r for r in recs if r.get('violation')]:
        ctx.violation('idx_%s' % v['what'], {'case': v['what'], 'witness': v['witness'], 'summary': '%s: %s' % (v['what'], v['witness'][:300])}, {'what': v['what']})


def replay(ctx, path):
    run(ctx)
