"""C07 — every surface form means exactly its documented core expansion (metamorphic: sugared vs hand-expanded)."""
import json
import random

from vlib import core, pipeline as P, diffrun
from vgen import gen as G, gen2 as G2, emit as E, xform as X, ref as R
from vgen.ast import *

LEVEL = 'exploration'


def sizes(ctx):
    return dict(cases=36, enum_cases=16, inputs=16) if ctx.tier == 'quick' else dict(cases=400, enum_cases=160, inputs=60)


def sugar_stats(prog):
    s = {'disjunctions': 0, 'nested_disjunctions': 0, 'patterns': 0, 'repeated_vars': 0, 'expr_args': 0, 'wildcards': 0, 'negations': 0,
         'multi_head_rules': 0, 'facts': 0}

    def walk(items, depth):
        for it in items:
            if isinstance(it, Disj):
                s['disjunctions'] += 1
                if depth > 0:
                    s['nested_disjunctions'] += 1
                for alt in it.alts:
                    walk(alt, depth + 1)
            elif isinstance(it, Clause):
                seen = set()
                for a in it.args:
                    if isinstance(a, APat):
                        s['patterns'] += 1
                    elif isinstance(a, AWild):
                        s['wildcards'] += 1
                    elif isinstance(a, AExpr):
                        s['expr_args'] += 1
                    elif isinstance(a, AVar):
                        if a.name in seen:
                            s['repeated_vars'] += 1
                        seen.add(a.name)
            elif isinstance(it, Neg):
                s['negations'] += 1
    for r in prog.rules:
        walk(r.body, 0)
        if len(r.heads) > 1:
            s['multi_head_rules'] += 1
        if not r.body:
            s['facts'] += 1
    return s


def nest_disjunctions(prog, rng):
    """wrap some clause pairs into nested disjunctions: (A | (B | C), D)"""
    rules = []
    for r in prog.rules:
        body = []
        for it in r.body:
            if isinstance(it, Disj) and rng.random() < 0.5 and len(it.alts) >= 2:
                # nest: (a | b | c) -> (a | (b | c))
                body.append(Disj([it.alts[0], [Disj(it.alts[1:])]]) if len(it.alts) > 2 else Disj([it.alts[0], [Disj([it.alts[1], it.alts[1]])]]))
            else:
                body.append(it)
        rules.append(Rule(r.heads, body, r.brace))
    return Program(prog.rels, rules, prog.macros, prog.attrs)


def gen_cases(ctx):
    sz = sizes(ctx)
    cases = []
    n = 0
    while n < sz['cases'] + sz['enum_cases']:
        rng = random.Random(ctx.rng.getrandbits(48))
        enum = n >= sz['cases']
        cfg = G2.default_cfg(lattices=rng.random() < 0.3, neg=True, agg=rng.random() < 0.3, p_neg=0.3)
        cfg.dom = dom = rng.choice([3, 4, 5])
        cfg.n_rels, cfg.n_rules = (3, 6), (3, 8)
        cfg.opt_cols = 0.25
        cfg.p_two_heads = 0.3
        cfg.p_fact = 0.15
        # programs come from the positive generator with disjunctions (gen.py) or the stratified one (gen2.py)
        if enum:
            # rule shapes `[binder]? cl1, cl2` sampled from the complete shape space (repeated variables, constants and wildcards in
            # either clause, bound by the other clause or not), on inputs with size ratios on both sides of the run-time join reordering
            cfg.dom = dom = rng.choice([3, 4])
            prog, input_rels, _ = G.enumerated_program(rng, nrules=12, dom=dom)
        elif rng.random() < 0.5:
            prog, input_rels = G.gen_positive_program(rng, cfg)
        else:
            prog, input_rels = G2.gen_program(rng, cfg)
        prog = nest_disjunctions(prog, rng)
        assert not G.check_scoping(prog), (G.check_scoping(prog), prog.text())
        lat_rels = [r.name for r in prog.rels if r.is_lat]
        core_prog, facts = X.expand_program(prog, {'lat_rels': lat_rels})
        if G.check_scoping(core_prog):
            raise RuntimeError('expansion broke scoping: %s\n%s\n=>\n%s' % (G.check_scoping(core_prog), prog.text(), core_prog.text()))
        vs = [E.Variant('sugar', prog, 'ascent'), E.Variant('core', core_prog, 'ascent')]
        # partial expansions: one sugar at a time
        for key in ['disj', 'pat', 'rep', 'expr', 'wild', 'neg', 'heads']:
            opts = {k: False for k in ['disj', 'pat', 'rep', 'expr', 'wild', 'neg', 'heads', 'facts']}
            opts[key] = True
            p1, _ = X.expand_program(prog, opts)
            if p1.text() != prog.text() and not G.check_scoping(p1):
                vs.append(E.Variant('only_' + key, p1, 'ascent'))
        case = P.Case('c%d' % n, prog, vs, meta={'kind': 'enumerated' if enum else 'sugar', 'sugar': sugar_stats(prog), 'facts_moved_to_input': len(facts)})
        loadable = [r.name for r in prog.rels]
        for ii in range(sz['inputs']):
            rows = G.enumerated_input(rng, dom) if enum else G.gen_input(rng, prog, input_rels if rng.random() < 0.6 else loadable, dom)
            seen, uniq = set(), []
            for r in rows:
                if r not in seen:
                    seen.add(r)
                    uniq.append(r)
            for v in vs:
                vrows = list(uniq)
                if v.name == 'core':
                    vrows = vrows + [f for f in facts if f not in seen]      # body-less rules = facts present unconditionally
                case.jobs.append(P.Job('%s_i%d_%s' % (case.name, ii, v.name), case, v, vrows, meta={'expect': [uniq]}))
        cases.append(case)
        n += 1
    return cases


def run(ctx, only=None):
    cases = gen_cases(ctx)
    if only:
        cases = [c for c in cases if c.name == only]
    ctx.rule = ('each case = a sugared program, its full hand expansion into the documented core forms (disjunction -> one rule per choice of disjuncts, nested ones '
                'flattened; ?pattern -> fresh variable + if-let; repeated variable / constant / expression argument -> fresh variable + equality test; _ -> fresh variable; '
                '!r -> agg () = not() in r; n heads -> n rules; body-less rule -> fact in the input) and one partial expansion per sugar kind, all run on the same inputs and '
                'compared with the reference of the sugared program; a share of the programs is made of rule shapes `[let|for binder]? cl1, cl2` sampled from the enumerated shape space (vgen/gen.py rule_shape_space) on inputs with size ratios on both sides of the run-time join reordering. non-trivial = reference non-trivial; distinct = distinct (variant text, input)')
    ctx.assumptions = ['reference evaluator', 'the expander vgen/xform.py implements the documented meaning (independent of ascent_syntax.rs)']
    tot = {}
    for c in cases:
        for k, v in c.meta['sugar'].items():
            tot[k] = tot.get(k, 0) + v
    ctx.cov['sugar_occurrences_in_corpus'] = tot
    per = {}

    def on_ok(c, j, jr, refs):
        per[j.variant.name] = per.get(j.variant.name, 0) + 1
    diffrun.run_cases(ctx, cases, on_ok=on_ok, closure=False)
    ctx.cov['executions_per_variant_kind'] = per


def replay(ctx, path):
    w = json.load(open(path))
    ctx.seed, ctx.tier = w.get('seed', ctx.seed), w.get('tier', ctx.tier)
    ctx.rng = random.Random(core.stable_hash('%s/%d' % (ctx.prop, ctx.seed)))
    run(ctx, only=w['case'])
