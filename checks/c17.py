"""C17 — library aggregators compute their definition and are total."""
from vlib import core, libmon

LEVEL = 'exploration'


def run(ctx, only=None):
    bindir = libmon.build()
    args = ['--seed=%d' % ctx.seed] + (['--random=2000', '--exhaustive_len=5'] if ctx.tier == 'quick' else ['--random=100000', '--exhaustive_len=7'])
    recs, rc, err = libmon.run_bin(bindir, 'c17_agg', args)
    ctx.rule = ('min, max, sum, count (under exact / unknown / inexact / loose size_hints), mean, not, percentile(p) for p in {0,1,25,50,75,99,99.999,100} + random p, called on ALL '
                'sequences of length 0..L over {-2..2} (every multiset in every order) and on random multisets up to 1000 elements; each call under catch_unwind; plus a percentile rank sweep: n distinct values for every n in 0..=200 x every p that is a multiple of 0.25 in [0,100] against the exact integer rank floor(n*p/100); oracle = definitions '
                'over a sorted copy (percentile: the element of rank floor(len*p/100) clamped to the last, the only total reading at p = 100). case = one input multiset; '
                'non-trivial = non-empty input; distinct = distinct inputs')
    ctx.assumptions = ['oracle definitions in harness/libmon/src/bin/c17_agg.rs']
    if not any(r.get('done') for r in recs) and not libmon.report_crash(ctx, 'c17_agg', args, rc, err):
        ctx.inconc('monitor binary did not finish (rc=%s): %s' % (rc, err[-300:]))
    for r in recs:
        if 'inputs' in r:
            ctx.evaluations += r['calls']
            ctx.nontrivial_counted += r['nonempty_distinct_inputs']   # the exhaustive part enumerates distinct sequences; random ones collide with negligible probability
            ctx.cov.update({'inputs': r['inputs'], 'exhaustive_inputs': r['exhaustive_inputs'], 'aggregator_calls': r['calls'], 'percentile_rank_sweep_points': r['percentile_rank_sweep']})
            ctx.sample(r)
    for v in [r for r in recs if r.get('violation')]:
        ctx.violation('agg_%s' % v['what'], {'case': v['what'], 'witness': v['witness'], 'summary': '%s: %s' % (v['what'], v['witness'])}, {'what': v['what']})


def replay(ctx, path):
    run(ctx)
