"""C10 — a relation tagged #[ds(eqrel)] behaves as its explicit closure."""
from checks import byods_common as BC

LEVEL = 'exploration'


def run(ctx, only=None):
    BC.run_provider(ctx, 'eqrel', True, only)


def replay(ctx, path):
    BC.replay_provider(ctx, 'eqrel', True, path)
