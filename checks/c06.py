"""C06 — results are invariant under reordering and consistent renaming (metamorphic)."""
import json
import random

from vlib import core, pipeline as P, diffrun
from vgen import gen as G, gen2 as G2, emit as E, xform as X, types as T, macros as M, corpus

LEVEL = 'exploration'


def sizes(ctx):
    if ctx.tier == 'quick':
        return dict(cases=20, pure_cases=8, enum_cases=16, macro_cases=32, inputs=10)
    return dict(cases=200, pure_cases=80, enum_cases=160, macro_cases=160, inputs=40)


BIG = lambda v: v * 1000003 + 17                      # small ints -> large sparse i64
STRF = lambda v: 'k%d_%s' % (v, 'x' * (v % 3))          # small ints -> strings


def make_variants(rng, prog, pure):
    """returns list of (Variant, description)"""
    vs = [(E.Variant('base', prog, 'ascent'), 'base')]
    vs.append((E.Variant('prules', X.permute_rules(prog, rng), 'ascent'), 'rules permuted'))
    vs.append((E.Variant('pdecls', X.permute_decls(prog, rng), 'ascent'), 'declarations permuted'))
    vs.append((E.Variant('pheads', X.permute_heads(prog, rng), 'ascent'), 'head clauses permuted'))
    pb, nb = X.permute_bodies(prog, rng)
    if nb:
        vs.append((E.Variant('pbody', pb, 'ascent'), 'independent body items permuted in %d rules' % nb))
    ps, ns = X.swap_first_two_clauses(prog, rng)
    if ns:
        vs.append((E.Variant('swap2', ps, 'ascent'), 'first two clauses swapped in %d rules' % ns))
    vs.append((E.Variant('rvars', X.rename_vars(prog, rng), 'ascent'), 'variables renamed'))
    pr, relmap = X.rename_rels(prog, rng)
    v = E.Variant('rrels', pr, 'ascent')
    inv = {b: a for a, b in relmap.items()}
    v.back = lambda rel, t, inv=inv: (inv[rel], t)
    v.fwd = lambda rel, t, relmap=relmap: (relmap[rel], t)
    vs.append((v, 'relations renamed'))
    # everything at once, in the parallel macro as well
    allp = X.rename_vars(X.permute_heads(X.permute_decls(X.permute_rules(X.permute_bodies(prog, rng)[0], rng), rng), rng), rng)
    vs.append((E.Variant('all', allp, 'ascent'), 'all permutations + variable renaming'))
    if pure:
        for name, f, ty in [('big', BIG, T.I64), ('str', STRF, T.STR)]:
            base = prog
            if ty is T.STR:
                # F11: a variable repeated inside one clause does not compile for String columns (`x_.eq(&(x))` is
                # ambiguous for String); the String variant spells the equality test out by hand instead
                base, _ = X.expand_program(prog, {'disj': False, 'pat': False, 'rep': True, 'expr': False, 'wild': False, 'neg': False, 'heads': False, 'facts': False})
            rp = X.retype(base, f, ty)
            v = E.Variant(name, rp, 'ascent')
            finv = {f(x): x for x in range(64)}
            v.back = lambda rel, t, finv=finv: (rel, None if t is None else tuple(finv[x] for x in t))
            v.fwd = lambda rel, t, f=f: (rel, tuple(f(x) for x in t))
            vs.append((v, 'constants mapped injectively to %s' % ty.rust))
    return vs


def macro_cases(ctx, sz):
    """programs with in-program macros: the names of macro-local identifiers and of rule variables are renamed consistently
    (per macro / per rule) into a pool with adversarial spellings (x, x1, x11, ...); the reference is that of the independent expansion"""
    cases = []
    tries = 0
    while len(cases) < sz['macro_cases'] and tries < sz['macro_cases'] * 30:
        tries += 1
        rng = random.Random(ctx.rng.getrandbits(48))
        dom = rng.choice([3, 4, 6])
        g = M.gen_screened_program(rng, dom)
        if g is None:
            continue
        prog, exp, input_rels = g
        vs = [E.Variant('base', prog, 'ascent')]
        texts = {prog.text()}
        for i in range(4):
            rp = M.rename_program(prog, rng)
            if rp.text() not in texts:
                texts.add(rp.text())
                vs.append(E.Variant('mrvars%d' % i, rp, 'ascent_par' if i == 3 else 'ascent'))
        case = P.Case('m%d' % len(cases), exp, vs, meta={'kind': 'macro', 'variants': ['base'] + ['macro locals and rule variables renamed'] * (len(vs) - 1)})
        for ii in range(sz['inputs']):
            rows = M.gen_screened_input(rng, exp, input_rels, dom)
            for v in vs:
                vrows = list(rows)
                if v.name != 'base':
                    rng.shuffle(vrows)
                case.jobs.append(P.Job('%s_i%d_%s' % (case.name, ii, v.name), case, v, vrows, meta={'expect': [rows]}))
        cases.append(case)
    return cases


def corpus_cases(ctx, sz):
    """hand-written recursive lattice programs (rows improved in place inside the recursive stratum): the order of rules, body items
    and input tuples decides which row is visited before or after an improvement, and must not show in the result"""
    cases = []
    for f in [corpus.set_reach, corpus.sp_count, corpus.set_reach]:
        rng = random.Random(ctx.rng.getrandbits(48))
        name, prog, input_rels, mk = f(rng)
        vds = make_variants(rng, prog, False)
        case = P.Case('k%d_%s' % (len(cases), name), prog, [v for v, _ in vds], meta={'kind': 'corpus:' + name, 'variants': [d for _, d in vds]})
        for ii in range(sz['inputs'] * 2):
            rows = list(dict.fromkeys(mk(rng)))
            for v in case.variants:
                vrows = list(rows)
                if v.name != 'base':
                    rng.shuffle(vrows)
                fwd = getattr(v, 'fwd', None)
                if fwd:
                    vrows = [fwd(rel, t) for rel, t in vrows]
                case.jobs.append(P.Job('%s_i%d_%s' % (case.name, ii, v.name), case, v, vrows, meta={'expect': [rows]}))
        cases.append(case)
    return cases


def gen_cases(ctx):
    sz = sizes(ctx)
    cases = []
    n = 0
    total = sz['cases'] + sz['pure_cases'] + sz['enum_cases']
    cases += macro_cases(ctx, sz)
    cases += corpus_cases(ctx, sz)
    while n < total:
        rng = random.Random(ctx.rng.getrandbits(48))
        pure = sz['cases'] <= n < sz['cases'] + sz['pure_cases']
        enum = n >= sz['cases'] + sz['pure_cases']
        if enum:
            # rule shapes `[binder]? cl1, cl2` from the enumerated space: the order of the two clauses (and of the binder
            # relative to them, where scoping allows) must not matter, whatever the size ratio of the relations
            dom = rng.choice([3, 4])
            prog, input_rels, _ = G.enumerated_program(rng, nrules=12, dom=dom)
        elif pure:
            dom = rng.choice([3, 4, 5])
            prog, input_rels = G.gen_pure_program(rng, dom)
        else:
            cfg = G2.default_cfg(lattices=rng.random() < 0.4, neg=True, agg=True)
            cfg.dom = dom = rng.choice([3, 4, 5])
            cfg.n_rels, cfg.n_rules = (3, 6), (3, 8)
            prog, input_rels = G2.gen_program(rng, cfg)
        assert not G.check_scoping(prog), (G.check_scoping(prog), prog.text())
        vds = make_variants(rng, prog, pure)
        case = P.Case('c%d' % n, prog, [v for v, _ in vds], meta={'kind': 'enumerated' if enum else 'pure' if pure else 'general', 'variants': [d for _, d in vds]})
        loadable = [r.name for r in prog.rels]
        for ii in range(sz['inputs']):
            rows = G.enumerated_input(rng, dom) if enum else G.gen_input(rng, prog, input_rels if rng.random() < 0.6 else loadable, dom)
            seen, uniq = set(), []
            for r in rows:
                if r not in seen:
                    seen.add(r)
                    uniq.append(r)
            for v in case.variants:
                vrows = list(uniq)
                if v.name != 'base':
                    rng.shuffle(vrows)                      # order of tuples in the input vectors
                    # lattice inputs: keep one row per key (shuffling cannot introduce a second)
                fwd = getattr(v, 'fwd', None)
                if fwd:
                    vrows = [fwd(rel, t) for rel, t in vrows]
                case.jobs.append(P.Job('%s_i%d_%s' % (case.name, ii, v.name), case, v, vrows, meta={'expect': [uniq]}))
        cases.append(case)
        n += 1
    return cases


def run(ctx, only=None):
    cases = gen_cases(ctx)
    if only:
        cases = [c for c in cases if c.name == only]
    ctx.rule = ('each case = one logical program in 8-11 syntactic variants (rules / declarations / head clauses / independent body items permuted, first two clauses '
                'swapped, variables renamed, relations renamed, all at once; for programs without interpreted functions also constants mapped injectively to sparse i64 and '
                'to String with the column type changed; hand-written recursive lattice programs (set of sources per node, shortest paths) in the same variants; for programs with in-program macros the macro-local identifiers and rule variables renamed into a pool of adversarial spellings x, x1, x11, ...) x inputs (each variant gets its own shuffle of the input vectors). Oracle: every variant, mapped back, equals the '
                'reference of the base program (hence all variants are equal). non-trivial = reference non-trivial; distinct = distinct (variant text, input)')
    ctx.assumptions = ['reference evaluator', 'independence of permuted body items is decided on the AST: a permutation is used only if the rule stays well-scoped',
                       'renaming pools exclude identifiers reserved by generated code (leading/trailing underscore, cl1_val, tuple, ...), as the property allows']
    per = {}

    def on_ok(c, j, jr, refs):
        per[j.variant.name] = per.get(j.variant.name, 0) + 1

    diffrun.run_cases(ctx, cases, on_ok=on_ok, closure=False)
    ctx.cov['executions_per_variant_kind'] = per


def replay(ctx, path):
    w = json.load(open(path))
    ctx.seed, ctx.tier = w.get('seed', ctx.seed), w.get('tier', ctx.tier)
    ctx.rng = random.Random(core.stable_hash('%s/%d' % (ctx.prop, ctx.seed)))
    run(ctx, only=w['case'])
