"""C05 — relations are sets: a tuple is inserted exactly once, inputs are never lost.

Structural oracle on the public relation vectors (not only their set of tuples): input rows stay where the caller
put them, unmodified; every other row is new, distinct and derivable; one row per lattice key; row counts add up;
relation_sizes_summary() agrees. Serial, and parallel under the C02 schedule matrix with the race windows between
presence check and insertion widened by perturbation (hook counters prove the windows were entered)."""
import json
import random

from vlib import core, pipeline as P, diffrun
from vgen import gen as G, gen2 as G2, emit as E, corpus, ref as R

LEVEL = 'exploration'


def sizes(ctx):
    if ctx.tier == 'quick':
        return dict(programs=24, inputs=8, pools=[2, 8], reps=5, corpus_inputs=3)
    return dict(programs=200, inputs=24, pools=[1, 2, 3, 4, 8, 16, 32], reps=16, corpus_inputs=10)


def structural(c, j, rep, k, step, db):
    prog = c.ref_prog
    diffs = []
    inp = {}
    for rel, tup in diffrun.expected_inputs(j)[k]:
        inp.setdefault(rel, []).append(tup)
    sizes = dict(kv.split('=') for kv in step['sizes'].split(',') if '=' in kv)
    for relname, rows in step['rels'].items():
        rel = prog.rel(relname)
        actual = P.parse_rel_rows(prog, relname, rows)
        given = inp.get(relname, [])
        if relname in sizes and int(sizes[relname]) != len(actual):
            diffs.append({'rel': relname, 'sizes_summary_disagrees': [sizes[relname], len(actual)]})
        if len(j.steps) > 1:
            # histories append input between runs: position checks apply to the first run only
            given_pos = [t for (r, t) in j.input_rows if r == relname] if k == 0 else None
        else:
            given_pos = given
        if not rel.is_lat:
            if given_pos is not None and actual[:len(given_pos)] != given_pos:
                diffs.append({'rel': relname, 'input_rows_moved_or_changed': [R.show_row(prog, relname, t) for t in actual[:len(given_pos)][:10]]})
            rest = actual[len(given_pos):] if given_pos is not None else None
            if rest is not None:
                gs = set(given_pos)
                dup = [t for t in rest if t in gs]
                if dup:
                    diffs.append({'rel': relname, 'derived_row_duplicates_input_row': [R.show_row(prog, relname, t) for t in dup[:10]]})
                if len(rest) != len(set(rest)):
                    seen, d2 = set(), []
                    for t in rest:
                        if t in seen:
                            d2.append(t)
                        seen.add(t)
                    diffs.append({'rel': relname, 'tuple_appended_twice': [R.show_row(prog, relname, t) for t in d2[:10]]})
                expect_n = len(given_pos) + len(R.db_rows(prog, db, relname) - gs)
                if len(actual) != expect_n:
                    diffs.append({'rel': relname, 'row_count': [len(actual), expect_n]})
        else:
            keys = [t[:-1] for t in actual]
            if len(keys) != len(set(keys)):
                diffs.append({'rel': relname, 'two_rows_for_one_lattice_key': len(keys) - len(set(keys))})
            if given_pos is not None:
                for i, t in enumerate(given_pos):
                    if i >= len(actual) or actual[i][:-1] != t[:-1]:
                        diffs.append({'rel': relname, 'input_lattice_row_moved': R.show_row(prog, relname, t)})
                        break
                    if not rel.tys[-1].leq(t[-1], actual[i][-1]):
                        diffs.append({'rel': relname, 'input_lattice_value_lowered': [R.show_row(prog, relname, t), R.show_row(prog, relname, actual[i])]})
                        break
    return diffs


def gen_cases(ctx):
    sz = sizes(ctx)
    cases = []

    def add_jobs(rng, case, rows, tag):
        for v in case.variants:
            if not v.par:
                case.jobs.append(P.Job('%s_%s_%s' % (case.name, tag, v.name), case, v, rows))
            else:
                pool = rng.choice(sz['pools'])
                params = {'pool': pool, 'rep': sz['reps'], 'perturb': rng.randrange(1, 1 << 30), 'spin': rng.choice([0, 4])}
                case.jobs.append(P.Job('%s_%s_%s_p%d' % (case.name, tag, v.name, pool), case, v, rows, params=params))

    for f in [corpus.tc, corpus.funnel_rel, corpus.funnel_lat, corpus.sp_count, corpus.lat_many_keys, corpus.write_only_head]:
        rng = random.Random(ctx.rng.getrandbits(48))
        name, prog, input_rels, mk = f(rng)
        vs = [E.Variant('ser', prog, 'ascent'), E.Variant('par', prog, 'ascent_par'), E.Variant('run', prog, 'ascent_run'),
              E.Variant('pari', prog, 'ascent_par', extra_attrs=['inter_rule_parallelism'])]
        case = P.Case('k_' + name, prog, vs, meta={'kind': 'corpus:' + name})
        for ii in range(sz['corpus_inputs']):
            rows = mk(rng)
            if rng.random() < 0.5 and not any(prog.rel(r).is_lat for r, _ in rows):
                rows = rows + [rng.choice(rows) for _ in range(3)]     # caller-made duplicates must stay
            add_jobs(rng, case, rows, 'i%d' % ii)
        cases.append(case)
    n = 0
    while n < sz['programs']:
        rng = random.Random(ctx.rng.getrandbits(48))
        cfg = G2.default_cfg(lattices=rng.random() < 0.6, neg=False, agg=False, p_lattice=0.4)
        cfg.dom = rng.choice([2, 2, 3, 3, 4])        # tiny: the same tuple is derived by many rules, variants, iterations
        cfg.n_rels, cfg.n_rules = (2, 5), (3, 8)
        cfg.p_two_heads = 0.3
        prog, input_rels = G2.gen_program(rng, cfg)
        assert not G.check_scoping(prog), (G.check_scoping(prog), prog.text())
        vs = [E.Variant('ser', prog, 'ascent'), E.Variant('par', prog, 'ascent_par')]
        case = P.Case('c%d' % n, prog, vs, meta={'kind': 'random'})
        loadable = [r.name for r in prog.rels]
        for ii in range(sz['inputs']):
            kind = rng.choice(['dups', 'dense', 'directed', 'sparse'])
            rows = G.gen_input(rng, prog, loadable if rng.random() < 0.7 else input_rels, cfg.dom, kind=kind)
            add_jobs(rng, case, rows, 'i%d' % ii)
        cases.append(case)
        n += 1
    return cases


def run(ctx, only=None):
    cases = gen_cases(ctx)
    if only:
        cases = [c for c in cases if c.name == only]
    ctx.rule = ('positive programs and lattices over domains of 2-4 values (many rules / variants / iterations derive the same tuple), collision funnels '
                '(10^2..10^3 derivations per head tuple / lattice key); inputs with caller-made duplicates and with already-derivable facts in derived relations; '
                'ascent!, ascent_run!, ascent_par! (+inter_rule_parallelism) under pools x perturbation seeds x spinners. Oracle: structural check of the relation '
                'vectors against input order and the reference. non-trivial = reference non-trivial; parallel schedule evidence = hook counters')
    ctx.assumptions = ['reference evaluator', 'schedules sampled, not enumerated; the lost-insert-race and lattice re-check counters show the racy windows were entered']
    totals = [0] * 16
    stat = {'parallel_jobs': 0, 'parallel_jobs_with_lost_insert_race': 0, 'rows_checked': 0, 'input_rows_checked': 0}

    def on_ok(c, j, jr, refs):
        for (rep, steps) in jr.reps:
            for st in steps:
                stat['rows_checked'] += sum(len(r) for r in st['rels'].values())
        stat['input_rows_checked'] += len(j.input_rows)
        if j.variant.par and jr.stats:
            cs = jr.stats.get('counters', [])
            for i, x in enumerate(cs[:16]):
                totals[i] += x
            stat['parallel_jobs'] += 1
            if cs and (cs[0] > 0 or cs[2] > 0):
                stat['parallel_jobs_with_lost_insert_race'] += 1

    diffrun.run_cases(ctx, cases, extra_check=structural, on_ok=on_ok, per_job_timeout=240)
    ctx.cov['hook_counters'] = {'rel_insert_lost_race': totals[0], 'rel_insert_won': totals[1], 'lat_recheck_hit_under_mutex': totals[2],
                                'lat_row_created': totals[3], 'lat_join_changed': totals[4]}
    ctx.cov.update(stat)
    if stat['parallel_jobs'] and not stat['parallel_jobs_with_lost_insert_race']:
        ctx.inconc('no parallel execution entered a racy insert window (hook counters all zero): schedule quantifier not exercised')


def replay(ctx, path):
    w = json.load(open(path))
    ctx.seed, ctx.tier = w.get('seed', ctx.seed), w.get('tier', ctx.tier)
    ctx.rng = random.Random(core.stable_hash('%s/%d' % (ctx.prop, ctx.seed)))
    run(ctx, only=w['case'])
