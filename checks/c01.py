"""C01 — run() computes exactly the least model (positive programs).

Oracle: naive reference evaluator (vgen/ref.py) on the same input; plus a closure check of Ascent's own
output (one naive pass of every rule over it derives nothing new) and input containment."""
import json
import random

from vlib import core, pipeline as P
from vgen import gen as G, ref as R, emit as E
from vgen.ast import *

LEVEL = 'exploration'


def sizes(ctx):
    if ctx.tier == 'quick':
        return dict(programs=64, inputs=24)
    return dict(programs=640, inputs=120)


def gen_cases(ctx, n_programs, n_inputs):
    cases = []
    attempts = 0
    while len(cases) < n_programs and attempts < n_programs * 5:
        attempts += 1
        rng = random.Random(ctx.rng.getrandbits(48))
        cfg = G.Cfg()
        # hostile biases: tiny domains, many joins on few relations
        cfg.dom = rng.choice([2, 3, 4, 5, 6])
        if rng.random() < 0.3:
            cfg.n_rels = (2, 3)
            cfg.n_rules = (3, 6)
        prog, input_rels = G.gen_positive_program(rng, cfg)
        if G.check_scoping(prog):
            raise RuntimeError('generator produced ill-scoped program: %s\n%s' % (G.check_scoping(prog), prog.text()))
        name = 'c%d' % len(cases)
        v = E.Variant('v0', prog, 'ascent')
        case = P.Case(name, prog, [v], meta={'dom': cfg.dom, 'input_rels': input_rels})
        loadable = [r.name for r in prog.rels]
        for ii in range(n_inputs):
            # inputs mostly into input relations, sometimes into derived ones too (facts may sit anywhere)
            targets = input_rels if rng.random() < 0.7 else loadable
            rows = G.gen_input(rng, prog, targets, cfg.dom)
            case.jobs.append(P.Job('%s_i%d' % (name, ii), case, v, rows))
        cases.append(case)
    return cases


def closure_violations(prog, actual_db):
    """tuples derivable in one naive pass over Ascent's own result that are not in it"""
    out = []
    for ri, rule in enumerate(prog.rules):
        for env in R.solve(prog, actual_db, rule.body, 0, {}):
            for h in rule.heads:
                tup = tuple(a.ev(env) for a in h.args)
                if tup not in actual_db[h.rel]:
                    out.append((ri, h.rel, tup))
                    if len(out) > 5:
                        return out
    return out


def run(ctx, only=None):
    sz = sizes(ctx)
    cases = gen_cases(ctx, sz['programs'], sz['inputs'])
    if only:
        cases = [c for c in cases if c.name == only]
    ctx.rule = ('random positive Ascent programs (2-6 relations, 3-8 rules, joins / constants / repeated vars / wildcards / '
                'expression args / ?Some patterns / if / let / if-let / for / disjunctions / multi-head rules / facts, domains of 2-6 values) '
                'x random, skewed and program-directed inputs; a case = (program, input); non-trivial = the reference derived at least one '
                'tuple beyond the input through a rule with >= 2 body items; distinct = distinct (program text, input) pairs')
    ctx.assumptions = ['reference evaluator vgen/ref.py and the two printers of vgen/ast.py are correct (cross-checked by ./check --selftest)',
                       'rustc compiles the pasted expressions with the semantics mirrored in vgen/ast.py (non-negative operands, no overflow below the cap)']
    tasks = []
    index = []
    for c in cases:
        for j in c.jobs:
            index.append(j)
            tasks.append((c.ref_prog, j.input_rows))

    refs = {}

    def overlap():
        res = P.ref_eval_many(tasks)
        for j, r in zip(index, res):
            refs[j.id] = r
        return len(res)

    stats = P.build_and_run(ctx, cases, overlap=overlap)
    ctx.cov.update({'programs': stats['programs'], 'build_s': stats['build_s'], 'run_s': stats['run_s'],
                    'compile_failures': stats['compile_failures']})
    iters_hist = {}
    for c in cases:
        if c.build_failed:
            # a well-formed generated program that does not compile: inconclusive here (C15 owns that direction)
            ctx.inconc('program %s did not compile: %s' % (c.name, list(c.build_failed.values())[0][:300]))
            continue
        prog = c.ref_prog
        text = prog.text()
        for j in c.jobs:
            status, db, tsum, nontrivial = refs[j.id]
            if status != 'ok':
                ctx.inconc('reference failed on %s: %s' % (j.id, db))
                continue
            jr = j.result
            witness = {'case': c.name, 'job': j.id, 'program': text, 'input': P.show_rows(prog, j.input_rows),
                       'replay_hint': 'regenerate with the same VERIF_SEED/tier; case name selects the program'}
            if jr is None or (jr.crash and not jr.reps):
                kind = jr.crash[0] if jr and jr.crash else 'no-result'
                if kind in ('crash', 'hang') and 'undiagnosed' not in (jr.crash[1] if jr and jr.crash else ''):
                    witness['summary'] = 'run() did not return: %s' % (jr.crash,)
                    ctx.violation(j.id, witness, {'kind': kind})
                else:
                    ctx.inconc('no result for %s (%s)' % (j.id, kind))
                continue
            ctx.evaluations += 1
            if jr.panics:
                witness['summary'] = 'run() panicked: %s' % jr.panics[0]
                ctx.violation(j.id, witness, {'kind': 'panic', 'message': jr.panics[0]})
                continue
            step = jr.reps[0][1][-1]
            diffs = P.compare_step_to_db(prog, step, db)
            # closure of Ascent's own output
            actual_db = R.new_db(prog)
            for relname, rows in step['rels'].items():
                for t in P.parse_rel_rows(prog, relname, rows):
                    actual_db[relname].add(t)
            missing_inputs = [(rel, tup) for rel, tup in j.input_rows if tup not in actual_db[rel]]
            if not diffs:
                cv = closure_violations(prog, actual_db)
                if cv:
                    diffs.append({'closure': [(ri, rel, R.show_row(prog, rel, t)) for ri, rel, t in cv]})
            if missing_inputs:
                diffs.append({'missing_inputs': P.show_rows(prog, missing_inputs[:10])})
            if diffs:
                witness['diffs'] = diffs
                witness['summary'] = 'relations differ from the least model: %s' % json.dumps(diffs)[:300]
                ctx.violation(j.id, witness, {'kind': 'diff', 'rels': sorted(d.get('rel', '?') for d in diffs)})
                continue
            for part in step['scc'].split(','):
                if ':' in part:
                    it = int(part.split(':')[1])
                    b = '1' if it <= 1 else '2-3' if it <= 3 else '4-9' if it <= 9 else '10+'
                    iters_hist[b] = iters_hist.get(b, 0) + 1
            ctx.count('sccs_total', len([p for p in step['scc'].split(',') if p]))
            if nontrivial:
                ctx.add_nontrivial(text, repr(j.input_rows))
                ctx.cov_max('max_reference_passes', tsum['max_passes'])
            if len(ctx.samples) < 2 and nontrivial and tsum['derived'] >= 3:
                ctx.sample({'program': text.split('\n'), 'input': P.show_rows(prog, j.input_rows),
                            'output': {k: v for k, v in step['rels'].items()}, 'scc_iterations': step['scc'], 'reference_trace': tsum})
    ctx.cov['scc_iteration_histogram'] = iters_hist


def replay(ctx, path):
    w = json.load(open(path))
    ctx.seed = w.get('seed', ctx.seed)
    ctx.tier = w.get('tier', ctx.tier)
    ctx.rng = random.Random(core.stable_hash('%s/%d' % (ctx.prop, ctx.seed)))
    run(ctx, only=w['case'])
