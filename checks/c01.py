"""C01 — run() computes exactly the least model (positive programs).

Oracle: naive reference evaluator (vgen/ref.py) on the same input; plus a closure check of Ascent's own
output (one naive pass of every rule over it derives nothing new)."""
import json
import random

from vlib import core, pipeline as P, diffrun
from vgen import gen as G, emit as E

LEVEL = 'exploration'


def sizes(ctx):
    return dict(programs=128, inputs=20) if ctx.tier == 'quick' else dict(programs=1280, inputs=80)


def gen_cases(ctx, n_programs, n_inputs):
    cases = []
    shapes_used = set()
    while len(cases) < n_programs:
        rng = random.Random(ctx.rng.getrandbits(48))
        name = 'c%d' % len(cases)
        if len(cases) % 2 == 1:
            # enumerative half: rule shapes [binder]? cl1, cl2 sampled from the complete shape space
            dom = rng.choice([3, 4])
            prog, input_rels, picked = G.enumerated_program(rng, nrules=16, dom=dom)
            assert not G.check_scoping(prog), (G.check_scoping(prog), prog.text())
            shapes_used.update(picked)
            v = E.Variant('v0', prog, 'ascent')
            case = P.Case(name, prog, [v], meta={'dom': dom, 'kind': 'enumerated'})
            for ii in range(n_inputs):
                case.jobs.append(P.Job('%s_i%d' % (name, ii), case, v, G.enumerated_input(rng, dom)))
            cases.append(case)
            continue
        cfg = G.Cfg()
        cfg.dom = rng.choice([2, 3, 4, 5, 6])      # tiny domains: the same tuple is derived many ways
        if rng.random() < 0.3:
            cfg.n_rels, cfg.n_rules = (2, 3), (3, 6)
        prog, input_rels = G.gen_positive_program(rng, cfg)
        assert not G.check_scoping(prog), (G.check_scoping(prog), prog.text())
        v = E.Variant('v0', prog, 'ascent')
        case = P.Case(name, prog, [v], meta={'dom': cfg.dom, 'kind': 'random'})
        loadable = [r.name for r in prog.rels]
        for ii in range(n_inputs):
            # inputs mostly into input relations, sometimes into derived ones too (facts may sit anywhere)
            targets = input_rels if rng.random() < 0.7 else loadable
            case.jobs.append(P.Job('%s_i%d' % (name, ii), case, v, G.gen_input(rng, prog, targets, cfg.dom)))
        cases.append(case)
    ctx.cov['enumerated_rule_shapes_sampled'] = len(shapes_used)
    ctx.cov['enumerated_rule_shape_space'] = len(G.rule_shape_space())
    return cases


def run(ctx, only=None):
    sz = sizes(ctx)
    cases = gen_cases(ctx, sz['programs'], sz['inputs'])
    if only:
        cases = [c for c in cases if c.name == only]
    ctx.rule = ('random positive Ascent programs (2-6 relations, 3-8 rules; joins, constants, repeated variables, wildcards, '
                'expression arguments, ?Some patterns, if / let / if-let, for-generators, disjunctions, multi-head rules, facts; domains of 2-6 values) '
                '+ an enumerative half: programs of 16 rule shapes `[let|for binder]? cl1, cl2` sampled without replacement from the complete space over relations a/2, b/2, c/1 and the recursive head h/2 with arguments from {x, y, z, binder variable, constant, _}, on inputs with size ratios on both sides of the run-time join reordering; ' 
                'x random, skewed, duplicated and program-directed inputs (also into derived relations). case = (program, input); non-trivial = the '
                'reference derived >= 1 tuple beyond the input through a rule with >= 2 body items; distinct = distinct (program text, input)')
    ctx.assumptions = ['reference evaluator vgen/ref.py and the two printers of vgen/ast.py (cross-checked by ./check --selftest)',
                       'rustc gives the pasted expressions the semantics mirrored in vgen/ast.py (non-negative operands, no overflow below the cap)']
    diffrun.run_cases(ctx, cases)


def replay(ctx, path):
    w = json.load(open(path))
    ctx.seed, ctx.tier = w.get('seed', ctx.seed), w.get('tier', ctx.tier)
    ctx.rng = random.Random(core.stable_hash('%s/%d' % (ctx.prop, ctx.seed)))
    run(ctx, only=w['case'])
