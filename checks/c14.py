"""C14 — run_timeout stops only in a sound, resumable state.

Fault enumeration over crash points, made deterministic by the virtual clock (hook H1): every clock *reading* is
one tick. Phase 1 measures the number R of readings of an uninterrupted run_timeout. Phase 2 runs, for every k in
1..=R (all of them when R <= limit, else a sample plus both ends), a fresh instance with run_timeout(k ticks): it
returns false at the first deadline check whose reading count >= k. After each interruption: soundness of the partial
state; then resumption (optionally interrupted again, depth <= 3) and completion with run(), compared with the reference."""
import json
import random

from vlib import core, pipeline as P, diffrun
from vgen import gen as G, gen2 as G2, emit as E, corpus, ref as R, byods as B

LEVEL = 'fault_enumeration'


def sizes(ctx):
    if ctx.tier == 'quick':
        return dict(programs=16, lat_programs=8, inputs=2, limit=160, corpus_inputs=1)
    return dict(programs=100, lat_programs=48, inputs=6, limit=400, corpus_inputs=4)


def gen_cases(ctx):
    sz = sizes(ctx)
    cases = []
    progs = []
    for f in [corpus.tc, corpus.sp_count, corpus.neg_agg_chain, corpus.funnel_lat, corpus.set_reach]:
        rng = random.Random(ctx.rng.getrandbits(48))
        name, prog, input_rels, mk = f(rng)

        def mk2(rng, mk=mk):
            for _ in range(20):
                rows = mk(rng)
                if len(rows) <= 40:
                    return rows
            return rows[:40]
        progs.append(('k_' + name, prog, mk2, rng, sz['corpus_inputs']))
    for provider in ('eqrel', 'trrel', 'trrel_uf'):
        for ternary in (False, True):
            rng = random.Random(ctx.rng.getrandbits(48))
            bprog, binputs, bmk = B.simple_positive_program(rng, provider, ternary)
            progs.append(('b_%s%d' % (provider, 3 if ternary else 2), (bprog, B.reference_program(bprog, provider, ['r'])), bmk, rng, sz['corpus_inputs'] + 1))
    n = 0
    # the last `lat_programs` programs are lattice-only (C03's configuration): rows improved in place across iterations and read
    # through key and non-key indices, interrupted between any two iterations
    while n < sz['programs'] + sz['lat_programs']:
        rng = random.Random(ctx.rng.getrandbits(48))
        if n < sz['programs']:
            cfg = G2.default_cfg(lattices=True, neg=True, agg=True)
        else:
            cfg = G2.default_cfg(lattices=True, neg=False, agg=False, p_lattice=0.6)
        cfg.dom = rng.choice([3, 4, 5])
        cfg.n_rels, cfg.n_rules = (3, 6), (4, 9)
        prog, input_rels = G2.gen_program(rng, cfg)
        if n >= sz['programs'] and not any(r.is_lat for r in prog.rels):
            continue
        prog = G2.add_probes(prog, rng, 2)
        assert not G.check_scoping(prog)
        loadable = [r.name for r in prog.rels if not r.name.startswith('pb')]

        def mk(rng, prog=prog, input_rels=input_rels, loadable=loadable, dom=cfg.dom):
            rows = G.gen_input(rng, prog, input_rels if rng.random() < 0.5 else loadable, dom, kind=rng.choice(['directed', 'dense', 'sparse']))
            seen, uniq = set(), []
            for r in rows:
                if r not in seen:
                    seen.add(r)
                    uniq.append(r)
            return uniq
        progs.append(('c%d' % n, prog, mk, rng, sz['inputs']))
        n += 1
    for (name, prog, mk, rng, ninputs) in progs:
        if isinstance(prog, tuple):
            vprog, prog = prog       # BYODS: tagged program vs untagged reference with explicit closure rules
            vs = [E.Variant('ser', vprog, 'ascent', timeout=True), E.Variant('sert', vprog, 'ascent', timeout=True, extra_attrs=['measure_rule_times'])]
        else:
            vs = [E.Variant('ser', prog, 'ascent', timeout=True),
                  E.Variant('sert', prog, 'ascent', timeout=True, extra_attrs=['measure_rule_times']),
                  E.Variant('par', prog, 'ascent_par', timeout=True)]
        case = P.Case(name, prog, vs, meta={'kind': 'corpus' if name.startswith('k_') else 'random'})
        case.inputs = [mk(rng) for _ in range(ninputs)]
        case.rng = rng
        for ii, rows in enumerate(case.inputs):
            for v in vs:
                params = {'pool': rng.choice([1, 2, 4])} if v.par else {}
                case.jobs.append(P.Job('%s_i%d_%s_measure' % (name, ii, v.name), case, v, rows, steps=[('measure',)], params=params,
                                       meta={'input_index': ii, 'phase': 1}))
        cases.append(case)
    return cases


def sound_partial(prog, step, final_db):
    """every tuple present must be in the final fixed point; every lattice value below the final one"""
    diffs = []
    for relname, rows in step['rels'].items():
        rel = prog.rel(relname)
        for t in P.parse_rel_rows(prog, relname, rows):
            if rel.is_lat:
                fin = final_db[relname].get(t[:-1])
                if t[:-1] not in final_db[relname] or not rel.tys[-1].leq(t[-1], fin):
                    diffs.append({'rel': relname, 'unsound_lattice_row': R.show_row(prog, relname, t)})
            elif t not in final_db[relname]:
                diffs.append({'rel': relname, 'underivable_tuple': R.show_row(prog, relname, t)})
            if len(diffs) > 8:
                return diffs
    return diffs


def run(ctx, only=None):
    sz = sizes(ctx)
    cases = gen_cases(ctx)
    if only:
        cases = [c for c in cases if c.name == only]
    ctx.rule = ('programs (corpus + random stratified with lattices, aggregates, probes) compiled with #![generate_run_timeout] as ascent!, ascent! + measure_rule_times, '
                'ascent_par!; crash point = the k-th clock reading observing the deadline (virtual clock). For each (variant, input): all k in 1..=R when R <= limit, else a '
                'seeded sample plus the first/last 25; after each interruption the partial state is checked for soundness, then resumed (second / third interruption for a '
                'third of the cases) and completed with run(), which must equal the reference. case = (variant, input, k-sequence); non-trivial = the run was actually '
                'interrupted (ret=false) in a state that differs from both the input and the final state; distinct = distinct (variant, input, stop state)')
    ctx.assumptions = ['reference evaluator', 'virtual clock replaces only the time source (hook H1); deadline checks themselves are the real generated code']
    final = {}    # (case, input index) -> reference db

    def on_ok(c, j, jr, refs):
        final[(c.name, j.meta['input_index'])] = refs[(j.id, 0)][1]

    def extra1(c, j, rep, k, step, db):
        if step.get('ret') != 'true':
            return [{'measure_run_returned': step.get('ret')}]
        return []

    stats = diffrun.run_cases(ctx, cases, on_ok=on_ok, extra_check=extra1)
    phase1_eval = ctx.evaluations
    ctx.samples = []      # samples of this check are interrupted runs (phase 2)
    built = stats['built']
    # ---- phase 2
    exhaustive_pairs, sampled_pairs = 0, 0
    p2 = []
    for c in cases:
        rng = c.rng
        phase1 = list(c.jobs)
        c.jobs = []
        for j in phase1:
            if j.result is None or not j.result.reps or (c.name, j.meta['input_index']) not in final:
                continue
            st = j.result.reps[0][1][-1]
            Rticks = st.get('ticks', 0)
            if Rticks <= 0:
                continue
            ctx.cov_max('max_clock_readings_R', Rticks)
            if Rticks <= sz['limit']:
                ks = list(range(1, Rticks + 1))
                exhaustive_pairs += 1
            else:
                ks = sorted(set(list(range(1, 26)) + list(range(Rticks - 24, Rticks + 1)) + rng.sample(range(1, Rticks + 1), sz['limit'] - 50)))
                sampled_pairs += 1
            for k in ks:
                steps = [('timeout', k)]
                r = rng.random()
                if r < 0.33:
                    steps.append(('timeout', rng.randrange(1, Rticks + 2)))
                    if r < 0.1:
                        steps.append(('timeout', rng.randrange(1, Rticks + 2)))
                steps.append(('run',))
                nj = P.Job('%s_k%d' % (j.id.replace('_measure', ''), k), c, j.variant, j.input_rows, steps=steps, params=j.params,
                           meta={'input_index': j.meta['input_index'], 'phase': 2, 'k': k, 'R': Rticks})
                c.jobs.append(nj)
                p2.append((c, nj))
    P.run_jobs(ctx, cases, built, per_job_timeout=180)
    stop_states = set()
    interrupted = 0
    returned_true = 0
    for c, j in p2:
        prog = c.ref_prog
        jr = j.result
        fdb = final[(c.name, j.meta['input_index'])]
        witness = {'case': c.name, 'job': j.id, 'variant': j.variant.name, 'kind': j.variant.kind, 'program': j.variant.prog.text(extra_attrs=['generate_run_timeout']).split('\n'),
                   'input': P.show_rows(prog, j.input_rows), 'steps': j.steps, 'params': j.params, 'R': j.meta['R']}
        facts = {'macro': j.variant.kind, 'case_kind': c.meta['kind']}
        if jr is None or (jr.crash and not jr.reps and not jr.panics):
            ctx.inconc('no result for %s (%s)' % (j.id, jr.crash if jr else None))
            continue
        ctx.evaluations += 1
        if jr.panics:
            witness['summary'] = 'panicked: %s' % jr.panics[0]
            facts.update({'kind': 'panic', 'message': jr.panics[0]})
            ctx.violation(j.id, witness, facts)
            continue
        steps = jr.reps[0][1]
        bad = None
        was_interrupted = False
        for si, st in enumerate(steps):
            if st['kind'].split(' ')[1] == 'timeout':
                if st.get('ret') == 'true':
                    returned_true += 1
                    d = P.compare_step_to_db(prog, st, fdb)
                    if d:
                        bad = ('run_timeout returned true but relations != fixed point', d)
                        break
                elif st.get('ret') == 'false':
                    d = sound_partial(prog, st, fdb)
                    if d:
                        bad = ('unsound partial state after interruption', d)
                        break
                    sig = (c.name, j.variant.name, j.meta['input_index'], st['scc'])
                    nrows = sum(len(r) for r in st['rels'].values())
                    nfinal = sum(len(v) for v in fdb.values())
                    if len(j.input_rows) < nrows < nfinal or (nrows < nfinal):
                        was_interrupted = True
                        stop_states.add(sig)
                else:
                    bad = ('run_timeout unsupported', [])
                    break
            else:
                d = P.compare_step_to_db(prog, st, fdb)
                if d:
                    bad = ('state after resumption != uninterrupted fixed point', d)
                    break
        if bad:
            witness['summary'] = '%s: %s' % (bad[0], json.dumps(bad[1])[:300])
            witness['diffs'] = bad[1]
            witness['observed'] = [{'step': st['kind'], 'scc': st['scc'], 'rels': {r: rows[:40] for r, rows in st['rels'].items()}} for st in steps]
            facts.update({'kind': 'diff', 'what': bad[0], 'rels': sorted(set(x.get('rel', '?') for x in bad[1]))})
            ctx.violation(j.id, witness, facts)
            continue
        if was_interrupted:
            interrupted += 1
            ctx.add_nontrivial(j.variant.name, c.name, j.meta['input_index'], steps[0]['scc'], steps[0]['kind'].split(' ')[2])
            if len(ctx.samples) < 3 and len(steps) >= 2:
                ctx.sample({'program': j.variant.prog.text(extra_attrs=['generate_run_timeout']).split('\n'), 'macro': j.variant.kind,
                            'input': P.show_rows(prog, j.input_rows), 'k_sequence': j.steps,
                            'observed': [{'step': st['kind'], 'scc_iterations': st['scc'], 'rows': sum(len(r) for r in st['rels'].values())} for st in steps]})
    ctx.cov.update({'phase1_measure_runs': phase1_eval, 'interrupted_runs_checked': len(p2), 'runs_interrupted_midway': interrupted,
                    'timeout_calls_that_returned_true': returned_true, 'distinct_stop_states': len(stop_states),
                    'pairs_with_all_crash_points_enumerated': exhaustive_pairs, 'pairs_sampled': sampled_pairs,
                    'exhaustive': sampled_pairs == 0})


def replay(ctx, path):
    w = json.load(open(path))
    ctx.seed, ctx.tier = w.get('seed', ctx.seed), w.get('tier', ctx.tier)
    ctx.rng = random.Random(core.stable_hash('%s/%d' % (ctx.prop, ctx.seed)))
    run(ctx, only=w['case'])
