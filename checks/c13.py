"""C13 — run() is idempotent; monotone re-runs equal a fresh run.

Histories of run() calls and fact additions on one program value; after every run() the relations are compared
with the reference evaluated on the union of all facts loaded so far (= a fresh instance run once)."""
import json
import random

from vlib import core, pipeline as P, diffrun
from vgen import gen as G, gen2 as G2, emit as E, corpus, byods as B
from checks.c05 import structural

LEVEL = 'exploration'


def sizes(ctx):
    if ctx.tier == 'quick':
        return dict(programs=56, inputs=5, pools=[1, 2, 8])
    return dict(programs=240, inputs=16, pools=[1, 2, 3, 4, 8, 16])


def split_rows(rng, rows, parts):
    rows = list(rows)
    if len(rows) >= parts + 1:
        cuts = sorted(rng.sample(range(1, len(rows)), parts - 1))      # non-empty chunks
    else:
        cuts = sorted(rng.randrange(0, len(rows) + 1) for _ in range(parts - 1))
    out, prev = [], 0
    for c in cuts + [len(rows)]:
        out.append(rows[prev:c])
        prev = c
    return out


def lattice_new_keys_only(prog, chunks):
    """a later chunk may not add a second row for a lattice key that already has one (caller-made key duplication): rows for a
    lattice that some rule derives are only allowed in the first chunk (a run may already have created their key), rows of
    input-only lattices only for keys not loaded before"""
    derived = set(h.rel for r in prog.rules for h in r.heads)
    seen = set()
    out = []
    for ci, ch in enumerate(chunks):
        o = []
        for rel, tup in ch:
            r = prog.rel(rel)
            if r.is_lat:
                if ci > 0 and rel in derived:
                    continue
                k = (rel, tup[:-1])
                if k in seen:
                    continue
                seen.add(k)
            o.append((rel, tup))
        out.append(o)
    return out


def gen_cases(ctx):
    sz = sizes(ctx)
    cases = []
    n = 0
    progs = []
    for f in [corpus.tc, corpus.sp_count, corpus.neg_agg_chain, corpus.funnel_lat]:
        rng = random.Random(ctx.rng.getrandbits(48))
        name, prog, input_rels, mk = f(rng)
        positive = name in ('tc',)
        progs.append(('k_' + name, prog, input_rels, mk, positive, rng, 4))
    for provider in ('eqrel', 'trrel', 'trrel_uf'):
        for ternary in (False, True):
            rng = random.Random(ctx.rng.getrandbits(48))
            bprog, binputs, bmk = B.simple_positive_program(rng, provider, ternary)
            progs.append(('b_%s%d' % (provider, 3 if ternary else 2), (bprog, B.reference_program(bprog, provider, ['r'])), binputs, bmk, True, rng, 16))
    while n < sz['programs']:
        rng = random.Random(ctx.rng.getrandbits(48))
        positive = rng.random() < 0.5
        cfg = G2.default_cfg(lattices=rng.random() < 0.5, neg=not positive, agg=not positive)
        cfg.dom = rng.choice([3, 4, 5])
        cfg.n_rels, cfg.n_rules = (3, 6), (3, 8)
        prog, input_rels = G2.gen_program(rng, cfg)
        if not positive:
            prog = G2.add_probes(prog, rng, 2)
        assert not G.check_scoping(prog), (G.check_scoping(prog), prog.text())
        dom = cfg.dom
        loadable = [r.name for r in prog.rels if not r.name.startswith('pb')]

        def mk(rng, prog=prog, input_rels=input_rels, loadable=loadable, dom=dom):
            rows = G.gen_input(rng, prog, input_rels if rng.random() < 0.5 else loadable, dom)
            seen, uniq = set(), []
            for r in rows:
                if r not in seen:
                    seen.add(r)
                    uniq.append(r)
            return uniq
        progs.append(('c%d' % n, prog, input_rels, mk, positive, rng, sz['inputs']))
        n += 1
    for (name, prog, input_rels, mk, positive, rng, ninputs) in progs:
        if isinstance(prog, tuple):
            # BYODS program: the variant is the tagged program, the reference the untagged one with explicit closure rules
            vprog, prog = prog
            vs = [E.Variant('ser', vprog, 'ascent')]
            if name.startswith('b_eqrel2'):
                vs.append(E.Variant('par', vprog, 'ascent_par'))
        else:
            vs = [E.Variant('ser', prog, 'ascent'), E.Variant('par', prog, 'ascent_par')]
        case = P.Case(name, prog, vs, meta={'kind': 'positive' if positive else 'general'})
        for ii in range(ninputs):
            rows = mk(rng)
            hist_kinds = ['rr', 'rrr']
            if positive:
                hist_kinds += ['rar', 'rarar', 'rar']
            if name.startswith('b_'):
                hist_kinds = ['rar', 'rarar', 'rar', 'rr']
            hk = rng.choice(hist_kinds)
            for v in vs:
                params = {}
                if v.par:
                    params = {'pool': rng.choice(sz['pools'])}
                if hk in ('rr', 'rrr'):
                    steps = [('run',)] * len(hk)
                    job = P.Job('%s_i%d_%s_%s' % (name, ii, hk, v.name), case, v, rows, steps=steps, params=params, meta={'hist': hk})
                else:
                    nparts = hk.count('r')
                    chunks = lattice_new_keys_only(prog, split_rows(rng, rows, nparts))
                    steps = [('run',)]
                    for ch in chunks[1:]:
                        steps += [('add', ch), ('run',)]
                    job = P.Job('%s_i%d_%s_%s' % (name, ii, hk, v.name), case, v, chunks[0], steps=steps, params=params, meta={'hist': hk})
                case.jobs.append(job)
        cases.append(case)
    return cases


def run(ctx, only=None):
    cases = gen_cases(ctx)
    if only:
        cases = [c for c in cases if c.name == only]
    ctx.rule = ('histories run;run | run;run;run on programs of all kinds (negation, aggregation, lattices, multiplicity probes) and run;add;run | run;add;run;add;run '
                'with facts added to input and derived relations (new lattice keys only) on programs without negation/aggregation; serial and parallel (pools 1..16). '
                'After every run(): relations == reference on the union of all facts loaded so far, plus the structural no-duplicate-row check. '
                'case = (variant, input, history); non-trivial = reference non-trivial')
    ctx.assumptions = ['reference evaluator']
    hist = {}

    def on_ok(c, j, jr, refs):
        hist[j.meta['hist']] = hist.get(j.meta['hist'], 0) + 1

    def extra(c, j, rep, k, step, db):
        # across a history a re-run may not append: reuse the structural row-count check (positions only for the first run)
        return [d for d in structural(c, j, rep, k, step, db) if 'row_count' in d or 'tuple_appended_twice' in d or 'two_rows_for_one_lattice_key' in d]

    diffrun.run_cases(ctx, cases, on_ok=on_ok, extra_check=extra)
    ctx.cov['histories_held'] = hist


def replay(ctx, path):
    w = json.load(open(path))
    ctx.seed, ctx.tier = w.get('seed', ctx.seed), w.get('tier', ctx.tier)
    ctx.rng = random.Random(core.stable_hash('%s/%d' % (ctx.prop, ctx.seed)))
    run(ctx, only=w['case'])
