"""Shared check for C10 / C11 / C12: a relation tagged with a BYODS provider behaves as its explicit closure."""
import json
import random

from vlib import core, pipeline as P, diffrun
from vgen import gen as G, emit as E, byods as B

LEVEL = 'exploration'


def sizes(ctx):
    if ctx.tier == 'quick':
        return dict(sched_inputs=120, random_programs=40, inputs=10)
    return dict(sched_inputs=600, random_programs=300, inputs=40)


def tagged_in_recursion(prog, tagged):
    """is a tagged relation read by a rule of its own recursive stratum (apart from the closure itself)?"""
    from vgen import ref as R
    from vgen.ast import Clause, Neg, Agg, Disj
    comps = R.stratify(prog)
    comp_of = {}
    for i, c in enumerate(comps):
        for n in c:
            comp_of[n] = i

    def reads(items, name):
        for it in items:
            if isinstance(it, (Clause,)) and it.rel == name:
                return True
            if isinstance(it, Disj) and any(reads(alt, name) for alt in it.alts):
                return True
        return False
    for t in tagged:
        for rule in prog.rules:
            if any(comp_of[h.rel] == comp_of[t] for h in rule.heads) and reads(rule.body, t):
                return True
    return False


def gen_cases(ctx, provider, par_ok):
    sz = sizes(ctx)
    cases = []
    for ternary in (False, True):
        rng = random.Random(ctx.rng.getrandbits(48))
        prog, input_rels, mk = B.sched_program(rng, provider, ternary)
        ref = B.reference_program(prog, provider, ['r'])
        vs = [E.Variant('ser', prog, 'ascent')]
        if par_ok and not ternary:
            vs.append(E.Variant('par', prog, 'ascent_par'))
        case = P.Case('sched%d' % (3 if ternary else 2), ref, vs,
                      meta={'kind': 'sched', 'facts': {'provider': provider, 'arity': 3 if ternary else 2, 'family': 'sched',
                                                       'tagged_read_in_own_recursive_stratum': True}})
        for ii in range(sz['sched_inputs']):
            rows, info = mk(rng)
            for v in vs:
                params = {'pool': rng.choice([1, 2, 4, 8]), 'rep': 3, 'perturb': rng.randrange(1, 1 << 30)} if v.par else {}
                case.jobs.append(P.Job('%s_i%d_%s' % (case.name, ii, v.name), case, v, rows, params=params, meta={'info': info}))
        cases.append(case)
    n = 0
    while n < sz['random_programs']:
        rng = random.Random(ctx.rng.getrandbits(48))
        prog, input_rels, tagged, dom = B.random_program(rng, provider)
        assert not G.check_scoping(prog), (G.check_scoping(prog), prog.text())
        ref = B.reference_program(prog, provider, tagged)
        arity = len(prog.rel(tagged[0]).tys)
        vs = [E.Variant('ser', prog, 'ascent')]
        if par_ok and arity == 2:
            vs.append(E.Variant('par', prog, 'ascent_par'))
        case = P.Case('c%d' % n, ref, vs, meta={'kind': 'random', 'facts': {'provider': provider, 'arity': arity, 'family': 'random',
                                                                          'tagged_read_in_own_recursive_stratum': tagged_in_recursion(prog, tagged)}})
        loadable = [r.name for r in prog.rels if r.ds is None and not r.name.startswith('mirror_')]
        for ii in range(sz['inputs']):
            rows = list(dict.fromkeys(G.gen_input(rng, prog, input_rels if rng.random() < 0.6 else loadable, dom)))
            for v in vs:
                params = {'pool': rng.choice([1, 2, 4, 8]), 'rep': 2, 'perturb': rng.randrange(1, 1 << 30)} if v.par else {}
                case.jobs.append(P.Job('%s_i%d_%s' % (case.name, ii, v.name), case, v, rows, params=params, meta={'info': {'shape': 'random'}}))
        cases.append(case)
        n += 1
    return cases


def run_provider(ctx, provider, par_ok, only=None):
    cases = gen_cases(ctx, provider, par_ok)
    if only:
        cases = [c for c in cases if c.name == only]
    closure = {'eqrel': 'reflexive (on mentioned elements), symmetric, transitive', 'trrel': 'transitive', 'trrel_uf': 'reflexive (on mentioned elements), transitive'}[provider]
    ctx.rule = ('programs with a #[ds(%s)] relation, binary r(T,T) and ternary r(K,T,T): (a) a schedule family where seed / feed tables control in which iteration of the '
                'recursive stratum each fact of each key arrives (all at once, one per iteration, keys that pause and resume, class merges, back edges, self loops, cycles), '
                'with readers for every bound/free column combination, count aggregates, negation and a reader that feeds the tagged relation back; (b) random stratified '
                'programs with one relation tagged. Oracle: the reference evaluates the untagged program plus the explicit %s closure rules; all plain relations (incl. a mirror '
                'of the tagged one) are compared.%s non-trivial = reference non-trivial; distinct = distinct (program, input)') % (
                    provider, closure, ' Binary form also under ascent_par! (pools x perturbation).' if par_ok else '')
    ctx.assumptions = ['reference evaluator', 'only plain reader relations are observable (the tagged relation\'s own field is a FakeVec)']
    shapes = {}

    def on_ok(c, j, jr, refs):
        s = j.meta['info'].get('shape', '?') + '/' + j.meta['info'].get('mode', '-')
        shapes[s] = shapes.get(s, 0) + 1

    # a program whose tagged relation cannot be compiled for some access pattern contradicts "every rule reading it, with any
    # combination of bound and free columns": violation, not inconclusive
    diffrun.run_cases(ctx, cases, on_ok=on_ok, closure=False, compile_fail_violation=lambda c, vname: True)
    ctx.cov['schedule_shapes_held'] = shapes


def replay_provider(ctx, provider, par_ok, path):
    w = json.load(open(path))
    ctx.seed, ctx.tier = w.get('seed', ctx.seed), w.get('tier', ctx.tier)
    ctx.rng = random.Random(core.stable_hash('%s/%d' % (ctx.prop, ctx.seed)))
    run_provider(ctx, provider, par_ok, only=w['case'])
