"""Shared check for C10 / C11 / C12: a relation tagged with a BYODS provider behaves as its explicit closure."""
import json
import os
import random

from vlib import core, pipeline as P, diffrun, sanitize
from vgen import gen as G, emit as E, byods as B

LEVEL = 'exploration'


def sizes(ctx):
    if ctx.tier == 'quick':
        return dict(sched_inputs=400, random_programs=40, inputs=10)
    return dict(sched_inputs=2400, random_programs=300, inputs=40)


def tagged_in_recursion(prog, tagged):
    """is a tagged relation read by a rule of its own recursive stratum (apart from the closure itself)?"""
    from vgen import ref as R
    from vgen.ast import Clause, Neg, Agg, Disj
    comps = R.stratify(prog)
    comp_of = {}
    for i, c in enumerate(comps):
        for n in c:
            comp_of[n] = i

    def reads(items, name):
        for it in items:
            if isinstance(it, (Clause,)) and it.rel == name:
                return True
            if isinstance(it, Disj) and any(reads(alt, name) for alt in it.alts):
                return True
        return False
    for t in tagged:
        for rule in prog.rules:
            if any(comp_of[h.rel] == comp_of[t] for h in rule.heads) and reads(rule.body, t):
                return True
    return False


def gen_cases(ctx, provider, par_ok):
    sz = sizes(ctx)
    cases = []
    for ternary in (False, True):
        rng = random.Random(ctx.rng.getrandbits(48))
        prog, input_rels, mk = B.sched_program(rng, provider, ternary)
        ref = B.reference_program(prog, provider, ['r'])
        vs = [E.Variant('ser', prog, 'ascent')]
        if par_ok and not ternary:
            vs.append(E.Variant('par', prog, 'ascent_par'))
        case = P.Case('sched%d' % (3 if ternary else 2), ref, vs,
                      meta={'kind': 'sched', 'facts': {'provider': provider, 'arity': 3 if ternary else 2, 'family': 'sched',
                                                       'tagged_read_in_own_recursive_stratum': True}})
        for ii in range(sz['sched_inputs']):
            rows, info = mk(rng)
            for v in vs:
                params = {'pool': rng.choice([1, 2, 4, 8]), 'rep': 3, 'perturb': rng.randrange(1, 1 << 30)} if v.par else {}
                case.jobs.append(P.Job('%s_i%d_%s' % (case.name, ii, v.name), case, v, rows, params=params, meta={'info': info}))
        cases.append(case)
    n = 0
    while n < sz['random_programs']:
        rng = random.Random(ctx.rng.getrandbits(48))
        prog, input_rels, tagged, dom = B.random_program(rng, provider)
        assert not G.check_scoping(prog), (G.check_scoping(prog), prog.text())
        ref = B.reference_program(prog, provider, tagged)
        arity = len(prog.rel(tagged[0]).tys)
        vs = [E.Variant('ser', prog, 'ascent')]
        if par_ok and arity == 2:
            vs.append(E.Variant('par', prog, 'ascent_par'))
        case = P.Case('c%d' % n, ref, vs, meta={'kind': 'random', 'facts': {'provider': provider, 'arity': arity, 'family': 'random',
                                                                          'tagged_read_in_own_recursive_stratum': tagged_in_recursion(prog, tagged)}})
        loadable = [r.name for r in prog.rels if r.ds is None and not r.name.startswith('mirror_')]
        for ii in range(sz['inputs']):
            rows = list(dict.fromkeys(G.gen_input(rng, prog, input_rels if rng.random() < 0.6 else loadable, dom)))
            for v in vs:
                params = {'pool': rng.choice([1, 2, 4, 8]), 'rep': 2, 'perturb': rng.randrange(1, 1 << 30)} if v.par else {}
                case.jobs.append(P.Job('%s_i%d_%s' % (case.name, ii, v.name), case, v, rows, params=params, meta={'info': {'shape': 'random'}}))
        cases.append(case)
        n += 1
    return cases


def run_provider(ctx, provider, par_ok, only=None):
    cases = gen_cases(ctx, provider, par_ok)
    if only:
        cases = [c for c in cases if c.name == only]
    closure = {'eqrel': 'reflexive (on mentioned elements), symmetric, transitive', 'trrel': 'transitive', 'trrel_uf': 'reflexive (on mentioned elements), transitive'}[provider]
    ctx.rule = ('programs with a #[ds(%s)] relation, binary r(T,T) and ternary r(K,T,T): (a) a schedule family where seed / feed tables control in which iteration of the '
                'recursive stratum each fact of each key arrives (all at once, one per iteration, keys that pause and resume, class merges, back edges, self loops, cycles), '
                'with readers for every bound/free column combination, count aggregates, negation and a reader that feeds the tagged relation back; (b) random stratified '
                'programs with one relation tagged. Oracle: the reference evaluates the untagged program plus the explicit %s closure rules; all plain relations (incl. a mirror '
                'of the tagged one) are compared.%s non-trivial = reference non-trivial; distinct = distinct (program, input)') % (
                    provider, closure, ' Binary form also under ascent_par! (pools x perturbation).' if par_ok else '')
    ctx.assumptions = ['reference evaluator', 'only plain reader relations are observable (the tagged relation\'s own field is a FakeVec)']
    shapes = {}

    def on_ok(c, j, jr, refs):
        s = j.meta['info'].get('shape', '?') + '/' + j.meta['info'].get('mode', '-')
        shapes[s] = shapes.get(s, 0) + 1

    # a program whose tagged relation cannot be compiled for some access pattern contradicts "every rule reading it, with any
    # combination of bound and free columns": violation, not inconclusive
    diffrun.run_cases(ctx, cases, on_ok=on_ok, closure=False, compile_fail_violation=lambda c, vname: True)
    ctx.cov['schedule_shapes_held'] = shapes
    if (ctx.tier == 'thorough' or os.environ.get('VERIF_SAN')) and not only:
        # ASan on the schedule family (transmute in ref_to_singleton_tuple_ref, IteratorFromDyn, raw hash-table juggling)
        sub = []
        for c in cases[:2] + cases[2:8]:
            c2 = P.Case(c.name + 'as', c.ref_prog, [v for v in c.variants if not v.par], meta=c.meta)
            for j in c.jobs[:60]:
                if not j.variant.par:
                    c2.jobs.append(P.Job(j.id + '_as', c2, j.variant, j.input_rows, meta=j.meta))
            sub.append(c2)
        ctx.cov['asan'] = sanitize.run_cases_san(ctx, sub, 'asan', on_ok=on_ok, compile_fail_violation=lambda c, vname: True)
        # Miri on the two schedule programs with three tiny schedules each (serial)
        mc = []
        for c in cases[:2]:
            v = [v for v in c.variants if not v.par][0]
            c2 = P.Case(c.name + 'mi', c.ref_prog, [v], meta=c.meta)
            small = sorted([j for j in c.jobs if not j.variant.par], key=lambda j: len(j.input_rows))[:3]
            for j in small:
                c2.jobs.append(P.Job(j.id + '_mi', c2, v, j.input_rows, meta=j.meta))
            mc.append(c2)
        reports = sanitize.miri_workspace(ctx, mc)
        held = 0
        from vgen import ref as R, gen as G
        for c in mc:
            for j in c.jobs:
                if j.result and j.result.reps and not j.result.panics:
                    db, _ = R.evaluate(c.ref_prog, G.input_to_dict(j.input_rows))
                    if not P.compare_step_to_db(c.ref_prog, j.result.reps[0][1][-1], db):
                        held += 1
                        ctx.evaluations += 1
                    else:
                        ctx.violation('miri_' + j.id, {'case': c.name, 'summary': 'result under Miri differs from the reference'}, dict(c.meta.get('facts', {}), kind='diff'))
        for (si, in_flight, err) in reports:
            if err.startswith('INCOMPLETE'):
                ctx.inconc('Miri run incomplete (shard %d): %s' % (si, err[-300:]))
            elif '/repo/' in err:
                ctx.violation('miri_ub_%d' % si, {'case': 'miri', 'report': err.split('\n')[-60:], 'summary': 'Miri: undefined behaviour with a frame in /repo'}, {'kind': 'miri_ub', 'provider': provider})
            else:
                ctx.inconc('Miri report without a /repo frame: %s' % err[-300:])
        ctx.cov['miri'] = {'programs': len(mc), 'executions_held': held, 'reports': len(reports), 'flags': sanitize.MIRI_FLAGS}


def replay_provider(ctx, provider, par_ok, path):
    w = json.load(open(path))
    ctx.seed, ctx.tier = w.get('seed', ctx.seed), w.get('tier', ctx.tier)
    ctx.rng = random.Random(core.stable_hash('%s/%d' % (ctx.prop, ctx.seed)))
    run_provider(ctx, provider, par_ok, only=w['case'])
