"""C20 — program instances are isolated and independent of the rayon pool they run in.

(a) groups of K instances (serial and parallel, same and different generated types) started together on a barrier on
separate OS threads inside one process; (b) pool matrix: construct in pool A, run in pool B, add facts, run in pool C,
for sizes 1..32 and the ambient (global) pool, each scenario family in its own OS process so that the first pool seen by
the process varies (the concurrent index types fix their shard count lazily per process); (c) nested install.
Every instance's result is compared with the reference (= what it computes alone)."""
import json
import os
import random

from vlib import core, pipeline as P, diffrun, sanitize
from vgen import gen as G, gen2 as G2, emit as E, corpus, byods as B

LEVEL = 'exploration'
POOLS = [0, 1, 2, 3, 5, 6, 8, 16]      # 0 = the global pool; 3, 5, 6 do not divide the power-of-two shard counts


def sizes(ctx):
    if ctx.tier == 'quick':
        return dict(programs=16, groups=48, triples=72, shared=24)
    return dict(programs=60, groups=300, triples=216, shared=160)


def gen_cases(ctx):
    sz = sizes(ctx)
    cases = []
    progs = []
    for f in [corpus.tc, corpus.sp_count, corpus.funnel_rel, corpus.funnel_lat, corpus.neg_agg_chain, corpus.noindex_cycle]:
        rng = random.Random(ctx.rng.getrandbits(48))
        name, prog, input_rels, mk = f(rng)

        def mk2(rng, mk=mk):
            for _ in range(30):
                rows = mk(rng)
                if len(rows) <= 120:
                    return rows
            return rows[:120]
        progs.append(('k_' + name, prog, mk2, rng, name == 'tc'))
    # a program with no-index (cross product) and BYODS relations: their timers / shard vectors are process-wide
    rng = random.Random(ctx.rng.getrandbits(48))
    bprog, binputs, bmk = B.sched_program(rng, 'eqrel', False)
    progs.append(('k_eqrel', B.reference_program(bprog, 'eqrel', ['r']), lambda rng, bmk=bmk: bmk(rng)[0], rng, False))
    byods_variant = bprog
    n = 0
    while n < sz['programs']:
        rng = random.Random(ctx.rng.getrandbits(48))
        positive = rng.random() < 0.5
        cfg = G2.default_cfg(lattices=True, neg=not positive, agg=not positive)
        cfg.dom = rng.choice([3, 4, 5])
        cfg.n_rels, cfg.n_rules = (3, 6), (3, 8)
        prog, input_rels = G2.gen_program(rng, cfg)
        if not positive:
            prog = G2.add_probes(prog, rng, 2)
        loadable = [r.name for r in prog.rels if not r.name.startswith('pb')]

        def mk(rng, prog=prog, input_rels=input_rels, loadable=loadable, dom=cfg.dom):
            return list(dict.fromkeys(G.gen_input(rng, prog, input_rels if rng.random() < 0.6 else loadable, dom)))
        progs.append(('c%d' % n, prog, mk, rng, positive))
        n += 1
    for (name, prog, mk, rng, positive) in progs:
        vprog = byods_variant if name == 'k_eqrel' else prog
        vs = [E.Variant('ser', vprog, 'ascent'), E.Variant('par', vprog, 'ascent_par'), E.Variant('pari', vprog, 'ascent_par', extra_attrs=['inter_rule_parallelism'])]
        case = P.Case(name, prog, vs, meta={'kind': 'positive' if positive else 'general'})
        case.mk, case.rng, case.positive = mk, rng, positive
        cases.append(case)
    rng = random.Random(ctx.rng.getrandbits(48))
    # (a) concurrent groups
    for g in range(sz['groups']):
        k = rng.choice([2, 4, 8, 16])
        same_type = rng.random() < 0.3
        c0 = rng.choice(cases)
        for m in range(k):
            c = c0 if same_type else rng.choice(cases)
            v = rng.choice(c.variants)
            rows = c.mk(c.rng)
            params = {'group': 'g%d' % g}
            if v.par and rng.random() < 0.7:
                params['pool'] = rng.choice([1, 2, 3, 4, 8])
            c.jobs.append(P.Job('%s_g%d_m%d_%s' % (c.name, g, m, v.name), c, v, rows, params=params,
                                meta={'scenario': 'concurrent', 'process': 'grp%d' % (g % 4), 'group_size': k}))
    # (b) pool triples, (c) nested
    triples = [(a, b, c) for a in POOLS for b in POOLS for c in POOLS]
    rng.shuffle(triples)
    corpus_cases = [c for c in cases if c.name.startswith('k_')]
    for ti, (a, b, c3) in enumerate(triples[:sz['triples']]):
        c = corpus_cases[ti % len(corpus_cases)] if ti % 3 == 0 else rng.choice(cases)
        v = rng.choice([x for x in c.variants if x.par])
        rows = c.mk(c.rng)
        if c.positive and len(rows) >= 2:
            cut = rng.randrange(1, len(rows))
            first, second = rows[:cut], rows[cut:]
            # lattices: new keys only in the added chunk
            from checks.c13 import lattice_new_keys_only
            first, second = lattice_new_keys_only(c.ref_prog, [first, second])
            steps = [('pool', b), ('run',), ('add', second), ('pool', c3), ('run',)]
            inp = first
        else:
            steps = [('pool', b), ('run',), ('pool', c3), ('run',)]
            inp = rows
        params = {'cpool': a, 'pool': b}
        if rng.random() < 0.15:
            params['outer'] = rng.choice([2, 4])
        # the first job of a process decides the process-wide shard count: one process per first-pool size
        c.jobs.append(P.Job('%s_t%d_%s_%d_%d_%d' % (c.name, ti, v.name, a, b, c3), c, v, inp, steps=steps, params=params,
                            meta={'scenario': 'pools', 'process': 'first%d' % a, 'triple': (a, b, c3)}))
    # lattice-heavy corpus families constructed in a 1- or 2-thread pool and run in a big one (whatever the construction pool fixed -
    # striped mutexes, shard vectors - is then shared by more workers than it was sized for)
    ti = len(triples)
    for c in corpus_cases:
        if not any(r.is_lat for r in c.ref_prog.rels) and c.name != 'k_noindex_cycle':
            continue
        for (a, b, c3) in ((1, 8, 16), (1, 16, 8), (2, 16, 16)) + (((1, 4, 8), (2, 8, 3), (1, 2, 16), (2, 5, 16)) if c.name == 'k_noindex_cycle' else ()):
            v = rng.choice([x for x in c.variants if x.par])
            rows = c.mk(c.rng)
            ti += 1
            c.jobs.append(P.Job('%s_t%d_%s_%d_%d_%d' % (c.name, ti, v.name, a, b, c3), c, v, rows, steps=[('pool', b), ('run',), ('pool', c3), ('run',)],
                                params={'cpool': a, 'pool': b, 'rep': 3}, meta={'scenario': 'pools', 'process': 'first%d' % a, 'triple': (a, b, c3)}))
    # (d) instances as tasks of ONE shared rayon pool (`pool.install(|| instances.par_iter().for_each(run))`): every run() executes on a
    # worker of that pool, and a worker waiting for a stolen sub-job of one instance may run another instance nested on its stack.
    # The members of a group are instances of one generated type (one binary), mostly parallel ones.
    for g in range(sz['shared']):
        c = rng.choice(corpus_cases) if g % 2 == 0 else rng.choice(cases)
        pars = [x for x in c.variants if x.par]
        v = rng.choice(pars) if pars and rng.random() < 0.85 else rng.choice(c.variants)
        k = rng.choice([4, 8, 16, 32])
        shared = rng.choice([2, 3, 4, 8])
        for m in range(k):
            rows = c.mk(c.rng)
            c.jobs.append(P.Job('%s_s%d_m%d_%s' % (c.name, g, m, v.name), c, v, rows, params={'group': 's%d' % g, 'shared_pool': shared},
                                meta={'scenario': 'shared_pool', 'process': 'shp%d' % (g % 4), 'group_size': k}))
    return cases


def run(ctx, only=None):
    cases = gen_cases(ctx)
    if only:
        cases = [c for c in cases if c.name == only]
    ctx.rule = ('corpus + random programs (no-index cross products, partial / full indices, lattices, aggregates, binary eqrel) as ascent!, ascent_par!, ascent_par!+inter_rule_parallelism. '
                '(a) groups of 2-16 instances of the same or of different generated types started on a barrier on separate OS threads, parallel ones inside their own pools; '
                '(b) construct in pool A, run in pool B, (add facts,) run in pool C for A,B,C in {global,1,2,3,5,6,8,16}, grouped into one OS process per A so that the first pool the '
                'process sees (which fixes the shard count of the concurrent indices) varies; (c) the run pool entered from inside a worker of an outer pool; (d) groups of 4-32 instances of one generated type run as tasks of ONE shared rayon pool of 2-8 workers (a worker that waits for a stolen sub-job may run another instance nested on its stack). '
                'Oracle: every instance equals the reference on its own facts. case = one instance execution; non-trivial = reference non-trivial; distinct = distinct (variant, input, scenario)')
    ctx.assumptions = ['reference evaluator', 'statistics counters (static mut timing totals) are outside the property: they never feed back into evaluation']
    stat = {'concurrent_instances': 0, 'pool_histories': 0, 'nested_pool_histories': 0, 'shared_pool_instances': 0}
    triples = set()

    def on_ok(c, j, jr, refs):
        if j.meta['scenario'] == 'shared_pool':
            stat['shared_pool_instances'] += 1
            ctx.cov_max('max_shared_pool_group_size', j.meta['group_size'])
        elif j.meta['scenario'] == 'concurrent':
            stat['concurrent_instances'] += 1
            ctx.cov_max('max_group_size', j.meta['group_size'])
        else:
            stat['pool_histories'] += 1
            triples.add(j.meta['triple'])
            if 'outer' in j.params:
                stat['nested_pool_histories'] += 1

    diffrun.run_cases(ctx, cases, on_ok=on_ok, per_job_timeout=300)
    stat['distinct_pool_triples'] = len(triples)
    ctx.cov.update(stat)
    if (ctx.tier == 'thorough' or os.environ.get('VERIF_SAN')) and not only:
        # TSan on concurrent instance groups (mixed serial / parallel instances sharing the process): any report with a /repo
        # frame other than the write-only statistics statics is a violation
        rng = random.Random(ctx.rng.getrandbits(48))
        san = []
        pick = [c for c in cases if c.name.startswith('k_')] + [c for c in cases if not c.name.startswith('k_')][:6]
        by = {}
        for c in pick:
            c2 = P.Case(c.name + 'ts', c.ref_prog, c.variants, meta=c.meta)
            c2.mk, c2.rng = c.mk, c.rng
            by[c.name] = c2
            san.append(c2)
        for g in range(24):
            k = rng.choice([2, 4, 8])
            for m in range(k):
                c2 = rng.choice(san)
                v = rng.choice(c2.variants)
                rows = c2.mk(c2.rng)
                if len(rows) > 200:
                    rows = rows[:200]
                params = {'group': 'g%d' % g}
                if v.par:
                    params['pool'] = rng.choice([2, 3, 4])
                c2.jobs.append(P.Job('%s_g%d_m%d_%s' % (c2.name, g, m, v.name), c2, v, rows, params=params, meta={'scenario': 'concurrent', 'group_size': k, 'triple': None}))
        ctx.cov['tsan'] = sanitize.run_cases_san(ctx, san, 'tsan', per_job_timeout=900, on_ok=on_ok)


def replay(ctx, path):
    w = json.load(open(path))
    ctx.seed, ctx.tier = w.get('seed', ctx.seed), w.get('tier', ctx.tier)
    ctx.rng = random.Random(core.stable_hash('%s/%d' % (ctx.prop, ctx.seed)))
    run(ctx, only=w['case'])
