"""C03 — lattice relations: one row per key carrying the least fixed point (monotone use only)."""
import json
import random

from vlib import core, pipeline as P, diffrun
from vgen import gen as G, gen2 as G2, emit as E

LEVEL = 'exploration'


def sizes(ctx):
    return dict(programs=96, inputs=24) if ctx.tier == 'quick' else dict(programs=640, inputs=100)


def gen_cases(ctx, n_programs, n_inputs):
    cases = []
    while len(cases) < n_programs:
        rng = random.Random(ctx.rng.getrandbits(48))
        cfg = G2.default_cfg(lattices=True, neg=False, agg=False, p_lattice=0.6)
        cfg.dom = rng.choice([3, 4, 5])
        cfg.n_rels, cfg.n_rules = (3, 5), (3, 7)
        prog, input_rels = G2.gen_program(rng, cfg)
        if not any(r.is_lat for r in prog.rels):
            continue
        assert not G.check_scoping(prog), (G.check_scoping(prog), prog.text())
        name = 'c%d' % len(cases)
        v = E.Variant('v0', prog, 'ascent')
        case = P.Case(name, prog, [v], meta={'dom': cfg.dom, 'lat_types': sorted(set(r.tys[-1].name for r in prog.rels if r.is_lat))})
        loadable = [r.name for r in prog.rels]
        for ii in range(n_inputs):
            targets = input_rels if rng.random() < 0.5 else loadable
            case.jobs.append(P.Job('%s_i%d' % (name, ii), case, v, G.gen_input(rng, prog, targets, cfg.dom)))
        cases.append(case)
    return cases


def run(ctx, only=None):
    sz = sizes(ctx)
    cases = gen_cases(ctx, sz['programs'], sz['inputs'])
    if only:
        cases = [c for c in cases if c.name == only]
    ctx.rule = ('random programs with lattice relations (arity 1-3; i32 max, Dual<i32>, bool, Option<i32>, Set<u8>, BoundedSet<2,u8>, '
                'ConstPropagation<u8>, lexicographic (i32,i32)), recursive through the lattice via monotone expressions and upward-closed tests, '
                'x generated inputs (at most one input row per lattice key). Compared per key with the reference (own lattice operations). '
                'non-trivial = reference derived >= 1 fact beyond the input through a rule with >= 2 body items')
    ctx.assumptions = ['reference evaluator and its own lattice operations (vgen/types.py)',
                       'generated programs use lattice values monotonically by construction (the property\'s precondition)']
    by_type = {}
    for c in cases:
        for t in c.meta['lat_types']:
            by_type[t] = by_type.get(t, 0) + 1
    ctx.cov['programs_per_lattice_type'] = by_type
    diffrun.run_cases(ctx, cases)


def replay(ctx, path):
    w = json.load(open(path))
    ctx.seed, ctx.tier = w.get('seed', ctx.seed), w.get('tier', ctx.tier)
    ctx.rng = random.Random(core.stable_hash('%s/%d' % (ctx.prop, ctx.seed)))
    run(ctx, only=w['case'])
