"""C09 — packaging variants of a program are semantically transparent (metamorphic)."""
import json
import re
import random

from vlib import core, pipeline as P, diffrun
from vgen import corpus, gen as G, gen2 as G2, emit as E, types as T
from vgen.ast import *

LEVEL = 'exploration'


def sizes(ctx):
    return dict(cases=14, generic_cases=6, inputs=8, seg_cases=6) if ctx.tier == 'quick' else dict(cases=140, generic_cases=50, inputs=30, seg_cases=50)


def vec_lit(rel, rows, par=False):
    items = ', '.join(E.tuple_expr([t.lit(v) for t, v in zip(rel.tys, row)]) for row in rows)
    if par:
        if rel.is_lat:
            return '[%s].into_iter().map(std::sync::RwLock::new).collect()' % items if rows else 'Default::default()'
        return '[%s].into_iter().collect()' % items if rows else 'Default::default()'
    return 'vec![%s]' % items


def include_variant(name, prog, kind, rng, uniq, attrs=(), positions=None):
    """program text split into ascent_source! chunks included at chosen positions"""
    head, items = prog.lines(extra_attrs=attrs)
    n = len(items)
    nchunks = rng.choice([1, 1, 2, 3])
    cuts = sorted(rng.sample(range(0, n + 1), min(2 * nchunks, n + 1)))
    if len(cuts) % 2:
        cuts = cuts[:-1]
    spans = [(cuts[i], cuts[i + 1]) for i in range(0, len(cuts), 2)]
    spans = [(a, b) for a, b in spans if b > a] or [(0, n)]
    pre = []
    body = list(head)
    pos = 0
    desc = []
    for ci, (a, b) in enumerate(spans):
        body += items[pos:a]
        src = '%s_%s_s%d' % (uniq, name, ci)
        pre.append('   pub mod m_%s {\n      ascent::ascent_source! { %s:\n%s\n      }\n   }' % (src, src, '\n'.join('         ' + l for l in items[a:b])))
        body.append('include_source!(m_%s::%s);' % (src, src))
        desc.append('%d..%d of %d' % (a, b, n))
        pos = b
    body += items[pos:]
    v = E.Variant(name, prog, kind, pre_items='\n'.join(pre), body_text='\n'.join('      ' + l for l in body))
    v.desc = 'include_source chunks at items ' + ', '.join(desc)
    return v


def tag_plain(text, spelling):
    """name the built-in provider explicitly on every plain relation: `#[ds(ascent::rel)] relation r(..)` is what `relation r(..)` means"""
    return re.sub(r'(?m)^(\s*)relation ', r'\1#[ds(%s)] relation ' % spelling, text)


def make_variants(rng, prog, input_rels, cname, init_rel, init_rows, bogus_rows):
    vs = []

    def add(v, desc, inputs_include_init=True):
        v.desc = getattr(v, 'desc', desc)
        v.inputs_include_init = inputs_include_init
        vs.append(v)
    add(E.Variant('base', prog, 'ascent'), 'ascent! + run()')
    add(E.Variant('run', prog, 'ascent_run'), 'ascent_run!')
    add(E.Variant('runpar', prog, 'ascent_run_par'), 'ascent_run_par!')
    add(E.Variant('par', prog, 'ascent_par'), 'ascent_par!')
    add(include_variant('inc', prog, 'ascent', rng, cname), '')
    add(include_variant('inc2', prog, 'ascent', rng, cname), '')
    add(include_variant('incpar', prog, 'ascent_par', rng, cname), '')
    # program-level attributes together with include_source!: the attribute must still take effect (the harness calls run_timeout,
    # which exists only if #![generate_run_timeout] survived the expansion of the include)
    for nm, kind in (('inctmo', 'ascent'), ('inctmopar', 'ascent_par')):
        vt = include_variant(nm, prog, kind, rng, cname, attrs=['generate_run_timeout', 'measure_rule_times'])
        vt.timeout = True
        vt.extra_attrs = ['generate_run_timeout', 'measure_rule_times']
        add(vt, '')
    add(E.Variant('times', prog, 'ascent', extra_attrs=['measure_rule_times']), '#![measure_rule_times]')
    add(E.Variant('tmo', prog, 'ascent', extra_attrs=['generate_run_timeout']), '#![generate_run_timeout], run()')
    add(E.Variant('both', prog, 'ascent_par', extra_attrs=['measure_rule_times', 'generate_run_timeout']), 'both attributes, ascent_par!')
    add(E.Variant('sig', prog, 'ascent', struct_sig='pub(crate) struct MyProg;', prog_ty='MyProg'), 'named struct with visibility')
    add(E.Variant('sigattr', prog, 'ascent_par', struct_sig='#[doc = "a program"] pub struct Documented;', prog_ty='Documented'), 'struct with outer attribute')
    # the built-in provider named explicitly, in both spellings (the second is the one the repository's own tests use)
    add(E.Variant('dsrel', prog, 'ascent', body_text=tag_plain(prog.text(indent='      '), '::ascent::rel')), '#[ds(::ascent::rel)] on every plain relation (ascent!)')
    add(E.Variant('dsrelpar', prog, 'ascent_par', body_text=tag_plain(prog.text(indent='      '), 'ascent::rel')), '#[ds(ascent::rel)] on every plain relation (ascent_par!)')
    if init_rel is not None:
        rel = prog.rel(init_rel)
        # relation r(..) = e  starts from exactly the tuples of e
        p2 = Program([Rel(r.name, r.tys, r.is_lat, r.ds, r.init) for r in prog.rels], prog.rules, prog.macros, prog.attrs)
        v = E.Variant('init', p2, 'ascent', body_text=p2.text(init_texts={init_rel: vec_lit(rel, init_rows)}, indent='      '))
        add(v, 'relation %s(..) = vec![..] (ascent!)' % init_rel, inputs_include_init=False)
        v = E.Variant('initpar', p2, 'ascent_par', body_text=p2.text(init_texts={init_rel: vec_lit(rel, init_rows, par=True)}, indent='      '))
        add(v, 'relation %s(..) = .. (ascent_par!)' % init_rel, inputs_include_init=False)
        # the caller assigns other contents to an initialised relation before run() (`prog.r = rows;`): the program starts from what
        # was assigned; the indices built by default() for the initial rows must not survive. The harness empties the vector and
        # pushes the job's rows; for some inputs as many rows as the initialiser had.
        for nm, kind, par in (('initassign', 'ascent', False), ('initassignpar', 'ascent_par', True)):
            v = E.Variant(nm, p2, kind, body_text=p2.text(init_texts={init_rel: vec_lit(rel, bogus_rows, par=par)}, indent='      '))
            v.assign_rel, v.assign_count = init_rel, len(bogus_rows)
            add(v, 'relation %s(..) = bogus rows; the caller assigns the real rows before run() (%s)' % (init_rel, kind), inputs_include_init=True)
            v = E.Variant('ds' + nm, p2, kind, body_text=tag_plain(p2.text(init_texts={init_rel: vec_lit(rel, bogus_rows, par=par)}, indent='      '), 'ascent::rel'))
            v.assign_rel, v.assign_count = init_rel, len(bogus_rows)
            add(v, '#[ds(ascent::rel)] relation %s(..) = bogus rows; the caller assigns the real rows before run() (%s)' % (init_rel, kind), inputs_include_init=True)
        # a later re-declaration wins: the earlier one carries a bogus initialiser
        head, items = p2.lines(init_texts={init_rel: vec_lit(rel, init_rows)})
        bogus = rel.decl(vec_lit(rel, bogus_rows))
        k = rng.randrange(0, len(prog.rels))
        v = E.Variant('redecl', p2, 'ascent', body_text='\n'.join('      ' + l for l in head + items[:k] + [bogus] + items[k:]) if k <= [i for i, l in enumerate(items) if l.startswith(('relation %s(' % init_rel, 'lattice %s(' % init_rel))][0]
                      else '\n'.join('      ' + l for l in head + [bogus] + items))
        add(v, 're-declared relation %s: the later declaration wins' % init_rel, inputs_include_init=False)
        # an earlier declaration WITH an initialiser, re-declared later WITHOUT one: the relation starts empty (the harness
        # then pushes the real rows)
        head3, items3 = p2.lines()
        k3 = [i for i, l in enumerate(items3) if l.startswith(('relation %s(' % init_rel, 'lattice %s(' % init_rel))][0]
        v = E.Variant('redeclempty', p2, 'ascent', body_text='\n'.join('      ' + l for l in head3 + items3[:k3] + [bogus] + items3[k3:]))
        add(v, 'declaration of %s with an initialiser, re-declared later without one: starts empty' % init_rel, inputs_include_init=True)
        # the same through include_source!: the included chunk carries the bogus declaration and is included FIRST;
        # the program's own (later) declaration must win, in serial and parallel macros
        for nm, kind, par in (('incredecl', 'ascent', False), ('incredeclpar', 'ascent_par', True)):
            head2, items2 = p2.lines(init_texts={init_rel: vec_lit(rel, init_rows, par=par)})
            src = '%s_%s_b' % (cname, nm)
            pre = '   pub mod m_%s {\n      ascent::ascent_source! { %s:\n         %s\n      }\n   }' % (src, src, rel.decl(vec_lit(rel, bogus_rows, par=par)))
            body = head2 + ['include_source!(m_%s::%s);' % (src, src)] + items2
            v = E.Variant(nm, p2, kind, pre_items=pre, body_text='\n'.join('      ' + l for l in body))
            add(v, 'included source declares %s with a bogus initialiser; the later declaration wins (%s)' % (init_rel, kind), inputs_include_init=False)
    return vs


def gen_cases(ctx):
    sz = sizes(ctx)
    cases = []
    n = 0
    while n < sz['cases']:
        rng = random.Random(ctx.rng.getrandbits(48))
        cfg = G2.default_cfg(lattices=rng.random() < 0.4, neg=True, agg=True)
        cfg.dom = dom = rng.choice([3, 4, 5])
        cfg.n_rels, cfg.n_rules = (3, 6), (3, 8)
        prog, input_rels = G2.gen_program(rng, cfg)
        prog = G2.add_probes(prog, rng, 2)
        # captured local: a rule whose bound is a literal in ascent! and a captured local in ascent_run!
        src = [r for r in prog.rels if not r.is_lat and len(r.tys) >= 1 and r.tys[0] is T.I32 and not r.name.startswith('pb')]
        assert not G.check_scoping(prog), (G.check_scoping(prog), prog.text())
        cname = 'c%d' % n
        init_rel = rng.choice(input_rels) if input_rels and rng.random() < 0.85 else None
        init_rows, bogus = [], []
        if init_rel:
            rel = prog.rel(init_rel)
            init_rows = list(dict.fromkeys(tuple(G.rand_value(rng, t, dom) for t in rel.tys) for _ in range(rng.randrange(1, 6))))
            bogus = [tuple(G.rand_value(rng, t, dom) for t in rel.tys) for _ in range(2)]
            if rel.is_lat:
                init_rows = list({r[:-1]: r for r in init_rows}.values())
        vs = make_variants(rng, prog, input_rels, cname, init_rel, init_rows, bogus)
        # ascent_run! in which one input relation has NO initialiser (and no rule): it is simply empty, and negations / aggregations
        # over it still fire. These variants get the job's rows without that relation's rows, and are compared with the reference on those.
        dropc = [r for r in input_rels if r != init_rel]
        if dropc:
            dropped = rng.choice(dropc)
            for nm, kind in (('runmin', 'ascent_run'), ('runparmin', 'ascent_run_par')):
                v = E.Variant(nm, prog, kind)
                v.load_rels = [r.name for r in prog.rels if r.name != dropped]
                v.desc, v.inputs_include_init, v.drop_rel = '%s! with no initialiser for input relation %s (left empty)' % (kind, dropped), True, dropped
                vs.append(v)
        if src:
            r0 = rng.choice(src)
            lim = rng.randrange(1, dom)
            capprog_lit = Program(prog.rels + [Rel('capr', [T.I32])], prog.rules + [Rule([Head('capr', [V('x')])], [Clause(r0.name, [AVar('x')] + [AWild()] * (len(r0.tys) - 1), [If(Cmp('<', V('x'), K(lim)))])])])
            capprog_run = Program(prog.rels + [Rel('capr', [T.I32])], prog.rules + [Rule([Head('capr', [V('x')])], [Clause(r0.name, [AVar('x')] + [AWild()] * (len(r0.tys) - 1), [If(Cmp('<', V('x'), Raw('cap_local', lim)))])])])
            v1 = E.Variant('caplit', capprog_lit, 'ascent')
            v1.desc, v1.inputs_include_init, v1.ref_prog = 'extra rule with a literal bound', True, capprog_lit
            v2 = E.Variant('caprun', capprog_run, 'ascent_run', run_locals={'cap_local': '%di32' % lim})
            v2.desc, v2.inputs_include_init, v2.ref_prog = 'same rule, bound captured from a local by ascent_run!', True, capprog_lit
            vs += [v1, v2]
        case = P.Case(cname, prog, vs, meta={'kind': 'packaging', 'variants': {v.name: v.desc for v in vs}})
        loadable = [r.name for r in prog.rels if not r.name.startswith('pb')]
        for ii in range(sz['inputs']):
            rows = G.gen_input(rng, prog, input_rels if rng.random() < 0.7 else loadable, dom)
            rows = [r for r in dict.fromkeys(rows)]
            init_pairs = [(init_rel, t) for t in init_rows] if init_rel else []
            if init_rel and prog.rel(init_rel).is_lat:
                keys = set(t[:-1] for t in init_rows)
                rows = [(r, t) for r, t in rows if not (r == init_rel and t[:-1] in keys)]
            rows = [p for p in rows if p not in init_pairs]
            full = init_pairs + rows
            for v in vs:
                if getattr(v, 'assign_rel', None):
                    continue
                if getattr(v, 'drop_rel', None):
                    kept = [p for p in full if p[0] != v.drop_rel]
                    case.jobs.append(P.Job('%s_i%d_%s' % (cname, ii, v.name), case, v, kept, meta={'expect': [kept]}))
                    continue
                case.jobs.append(P.Job('%s_i%d_%s' % (cname, ii, v.name), case, v, full if v.inputs_include_init else rows, meta={'expect': [full]}))
        cases.append(case)
        n += 1
        # the assign variants have expectations of their own (some inputs are trimmed to the initialiser's row count): own case
        av = [v for v in vs if getattr(v, 'assign_rel', None)]
        if av:
            case.variants = [v for v in vs if v not in av]
            c3 = P.Case(cname + 'a', prog, av, meta={'kind': 'packaging', 'variants': {v.name: v.desc for v in av}})
            for ii in range(sz['inputs']):
                rows = [r for r in dict.fromkeys(G.gen_input(rng, prog, loadable, dom))]
                mine = [p for p in rows if p[0] == init_rel]
                if ii % 2 == 0 and len(mine) > av[0].assign_count:
                    drop = set(mine[av[0].assign_count:])
                    rows = [p for p in rows if p not in drop]
                for v in av:
                    c3.jobs.append(P.Job('%s_i%d_%s' % (c3.name, ii, v.name), c3, v, [(init_rel + '!clear', ())] + rows, meta={'expect': [rows]}))
            cases.append(c3)
    # a relation that holds its own input and is read only by the stratum deriving it: ascent_run! must index the initialiser's rows too
    rng = random.Random(ctx.rng.getrandbits(48))
    name, prog, input_rels, mk = corpus.tc_self(rng)
    vs = [E.Variant('base', prog, 'ascent'), E.Variant('run', prog, 'ascent_run'), E.Variant('runpar', prog, 'ascent_run_par'), E.Variant('par', prog, 'ascent_par')]
    for v in vs:
        v.desc = v.kind
    case = P.Case('k_' + name, prog, vs, meta={'kind': 'packaging', 'variants': {v.name: v.desc for v in vs}})
    for ii in range(max(4, sz['inputs'] // 2)):
        rows = list(dict.fromkeys(mk(rng)))
        for v in vs:
            case.jobs.append(P.Job('%s_i%d_%s' % (case.name, ii, v.name), case, v, rows, meta={'expect': [rows]}))
    cases.append(case)
    # generic struct signatures (programs without interpreted functions or constants)
    g = 0
    while g < sz['generic_cases']:
        rng = random.Random(ctx.rng.getrandbits(48))
        dom = rng.choice([3, 4])
        prog, input_rels = G.gen_pure_program(rng, dom, neg=True, consts=False)
        if not prog.rules:
            continue
        GT = T.GenericI32('T')
        gprog = Program([Rel(r.name, [GT for _ in r.tys]) for r in prog.rels], prog.rules)
        cname = 'g%d' % g
        vs = [E.Variant('base', prog, 'ascent'),
              E.Variant('gen', gprog, 'ascent', struct_sig='struct GP<T: Clone + Eq + std::hash::Hash>;', prog_ty='GP', prog_ty_inst='GP::<i32>'),
              E.Variant('genw', gprog, 'ascent', struct_sig='pub struct GW<T> where T: Clone + Eq + std::hash::Hash;', prog_ty='GW', prog_ty_inst='GW::<i32>'),
              E.Variant('genimpl', gprog, 'ascent', struct_sig='struct GI<T>; impl<T: Clone + Eq + std::hash::Hash> GI<T>;', prog_ty='GI', prog_ty_inst='GI::<i32>'),
              E.Variant('genpar', gprog, 'ascent_par', struct_sig='struct GPP<T: Clone + Eq + std::hash::Hash + Send + Sync>;', prog_ty='GPP', prog_ty_inst='GPP::<i32>')]
        for v in vs:
            v.desc = 'generic struct signature: %s' % (v.struct_sig or 'none')
        case = P.Case(cname, prog, vs, meta={'kind': 'generic', 'variants': {v.name: v.desc for v in vs}})
        for ii in range(sz['inputs']):
            rows = list(dict.fromkeys(G.gen_input(rng, prog, input_rels, dom)))
            for v in vs:
                case.jobs.append(P.Job('%s_i%d_%s' % (cname, ii, v.name), case, v, rows, meta={'expect': [rows]}))
        cases.append(case)
        g += 1
    return cases


def run(ctx, only=None):
    sz = sizes(ctx)
    cases = gen_cases(ctx)
    if only:
        cases = [c for c in cases if c.name == only]
    ctx.rule = ('each case = one program in 14-17 packagings: ascent!, ascent_run!, ascent_run_par!, ascent_par!, include_source! compositions (1-3 ascent_source! chunks at '
                'random item positions; serial and parallel), measure_rule_times, generate_run_timeout (run() path), both, named struct signatures with visibility / attributes, '
                'relation r(..) = e vs. pushing the same rows before run(), a re-declared relation whose earlier declaration carries a bogus initialiser, a bound captured '
                'from a local by ascent_run! vs. a literal; pure programs additionally under generic struct signatures (bounds inline, where clause, separate impl signature, '
                'parallel); a subset rebuilt with the segment-codegen cargo feature. Every variant is compared with the reference of the base program on the same facts. '
                'non-trivial = reference non-trivial; distinct = distinct (variant text, input)')
    ctx.assumptions = ['reference evaluator']
    per = {}

    def on_ok(c, j, jr, refs):
        per[j.variant.name] = per.get(j.variant.name, 0) + 1

    # variants with an extra rule have their own reference program: split them into their own cases for the oracle
    split = []
    for c in cases:
        own = [v for v in c.variants if getattr(v, 'ref_prog', None) is not None]
        if own:
            c2 = P.Case(c.name + 'x', own[0].ref_prog, own, meta=c.meta)
            c2.jobs = [j for j in c.jobs if j.variant in own]
            for j in c2.jobs:
                j.case = c2
            c.jobs = [j for j in c.jobs if j.variant not in own]
            c.variants = [v for v in c.variants if v not in own]
            split.append(c2)
    allc = cases + split
    diffrun.run_cases(ctx, allc, on_ok=on_ok, closure=False,
                      compile_fail_violation=lambda c, vname: vname.startswith('inctmo') and not any(b in c.build_failed for b in ('base', 'tmo', 'inc', 'both')))
    ctx.cov['executions_per_packaging'] = per
    # segment-codegen: rebuild a subset with the cargo feature on
    if not only:
        seg = [c for c in cases if c.name.startswith('c')][:sz['seg_cases']]
        segcases = []
        for c in seg:
            keep = [v for v in c.variants if v.name in ('base', 'par', 'run', 'inc', 'times')]
            c2 = P.Case(c.name + 'seg', c.ref_prog, keep, meta=dict(c.meta, kind='segment-codegen'))
            for j in c.jobs:
                if j.variant in keep:
                    c2.jobs.append(P.Job(j.id + '_seg', c2, j.variant, j.input_rows, meta=dict(j.meta)))
            segcases.append(c2)
        per2 = {}

        def on_ok2(c, j, jr, refs):
            per2[j.variant.name] = per2.get(j.variant.name, 0) + 1
        diffrun.run_cases(ctx, segcases, on_ok=on_ok2, closure=False, features=['segment-codegen'], profile='dbgseg')
        ctx.cov['executions_with_segment_codegen'] = per2


def replay(ctx, path):
    w = json.load(open(path))
    ctx.seed, ctx.tier = w.get('seed', ctx.seed), w.get('tier', ctx.tier)
    ctx.rng = random.Random(core.stable_hash('%s/%d' % (ctx.prop, ctx.seed)))
    run(ctx, only=w['case'].replace('seg', '').rstrip('x'))
