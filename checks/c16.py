"""C16 — shipped lattice types satisfy the lattice laws and report changes truthfully.
Exhaustive over small carriers (all pairs; all triples when carrier^3 fits the budget), real methods, laws as oracle."""
import json

import os

from vlib import core, libmon, sanitize

LEVEL = 'exploration'


def run(ctx, only=None):
    bindir = libmon.build()
    budget = 100000 if ctx.tier == 'quick' else 3000000
    args = ['--seed=%d' % ctx.seed, '--triples=%d' % budget]
    recs, rc, err = libmon.run_bin(bindir, 'c16_lattice', args)
    ctx.rule = ('every shipped Lattice impl (bool, integers, Option, Rc/Arc/Box with unique and shared ownership, Reverse, Dual, OrdLattice, tuples, Product of tuples and arrays, '
                'Set, BoundedSet<0|2|3>, ConstPropagation, nested compositions) over small carriers incl. extremal and incomparable elements: ALL pairs (commutativity, idempotence, '
                'absorption, order <-> join <-> meet agreement, join_mut / meet_mut value and change flag, Dual / Reverse swapping, top / bottom extremal) and all triples '
                '(associativity) when carrier^3 <= budget, else a random sample. case = (type, pair | triple); non-trivial = a pair with a != b; distinct = distinct (type, pair)')
    ctx.assumptions = ['the laws are evaluated on results of the real methods; equality is the type\'s own PartialEq']
    if not any(r.get('done') for r in recs) and not libmon.report_crash(ctx, 'c16_lattice', args, rc, err):
        ctx.inconc('monitor binary did not finish (rc=%s): %s' % (rc, err[-300:]))
    types = [r for r in recs if 'carrier' in r]
    allex = True
    for r in types:
        ctx.evaluations += r['pairs'] + r['triples']
        ctx.nontrivial_counted += r['pairs_with_distinct_elements']
        allex = allex and r['exhaustive_triples']
    ctx.cov['types'] = len(types)
    ctx.cov['pairs'] = sum(r['pairs'] for r in types)
    ctx.cov['triples'] = sum(r['triples'] for r in types)
    ctx.cov['exhaustive'] = allex
    ctx.cov['per_type'] = {r['type']: {'carrier': r['carrier'], 'pairs': r['pairs'], 'triples': r['triples'], 'all_triples': r['exhaustive_triples']} for r in types}
    for r in types[:3]:
        ctx.sample(r)
    if ctx.tier == 'thorough' or os.environ.get('VERIF_SAN'):
        # Miri on the types with shared-ownership / heap paths (Rc, Arc, Box, Set, BoundedSet, Product of sets), reduced carriers
        mrecs, ub = sanitize.miri_libmon(ctx, 'c16_lattice', ['--miri=1', '--small=1', '--triples=30'], timeout=2400)
        mt = [r for r in mrecs if 'carrier' in r]
        ctx.cov['miri'] = {'types': len(mt), 'pairs': sum(r['pairs'] for r in mt), 'ub_report': bool(ub), 'flags': sanitize.MIRI_FLAGS}
        recs += [r for r in mrecs if r.get('violation')]
        if ub == 'timeout' or (not ub and not any(r.get('done') for r in mrecs)):
            ctx.inconc('Miri pass did not finish')
        elif ub and '/repo/' in ub:
            ctx.violation('miri_ub', {'case': 'miri', 'report': ub.split('\n')[-50:], 'summary': 'Miri: undefined behaviour in ascent_base under the lattice monitor'}, {'kind': 'miri_ub'})
        elif ub:
            ctx.inconc('Miri error without a /repo frame: %s' % ub[-300:])
    for v in [r for r in recs if r.get('violation')]:
        ctx.violation('%s_%s' % (v['type'], v['law']), {'case': v['type'], 'law': v['law'], 'witness': v['witness'],
                                                        'summary': '%s violates %s: %s' % (v['type'], v['law'], v['witness'])},
                      {'type': v['type'], 'law': v['law']})


def replay(ctx, path):
    run(ctx)
