"""C15 — ill-formed programs are rejected at compile time, never miscompiled; well-formed generated programs compile.

rustc is the monitored process: every program is one tiny crate file compiled with `rustc --emit=metadata
--error-format=json` against the prebuilt rlibs. Oracle: exit status, absence of proc-macro panics / ICEs / hangs, and
an error whose (expansion-resolved) primary span lies inside the macro invocation."""
import json
import random

from vlib import core, compilefail
from vgen import gen as G, gen2 as G2, illform as IF, xform as X

LEVEL = 'exploration'
MACROS = ['ascent', 'ascent_par', 'ascent_run', 'ascent_run_par']


def sizes(ctx):
    return dict(programs=80, per_kind=1) if ctx.tier == 'quick' else dict(programs=400, per_kind=2)


EXTRA_ILL = [
    ('include_in_source', 'include_source! nested inside ascent_source!', None,
     'mod srcs {\n   ascent::ascent_source! { part_a:\n      relation xa(i32);\n   }\n   ascent::ascent_source! { part_b:\n      include_source!(part_a);\n      relation xb(i32);\n   }\n}\nfn main() {}\n'),
    ('include_in_source', 'include_source! in the middle of an ascent_source!', None,
     'mod srcs {\n   ascent::ascent_source! { part_a:\n      relation xa(i32);\n   }\n   ascent::ascent_source! { part_b:\n      relation xb(i32);\n      include_source!(part_a);\n      xb(x) <-- xa(x);\n   }\n}\nfn main() {}\n'),
]


# hand-written well-formed programs around shapes that once failed to compile (fixed findings stay here as regressions)
CONVERSE = [
    ('conv_f9', ['ascent', 'ascent_par'], 'relation a(i32); relation b(i32); relation c(i32);\n c(v) <-- a(u) let v = ((u.clone() + 1) % 5), b(v);', None),
    ('conv_f9b', ['ascent', 'ascent_run'], 'relation a(i32, Option<i32>); relation b(i32, i32); relation c(i32);\n c(w) <-- a(u, o) if let Some(v) = o, b(v, w);', None),
    ('conv_f11', ['ascent', 'ascent_par'], 'relation r(String, String); relation o(String);\n o(x) <-- r(x, x);', 'F11'),
    ('conv_f11b', ['ascent'], 'relation r(String, String, String); relation q(String); relation o(String);\n o(y) <-- q(y), r(x, y, x), !r(x, x, y);', 'F11'),
    ('conv_f12', ['ascent', 'ascent_par'], 'relation e(i32, i32); relation o(i32);\n macro m($x: ident) { e($x, n) if (*n < 2) let k = *n + 1 if k > 0 }\n o(a) <-- m!(a), m!(a);', None),
    ('conv_f13', ['ascent_par'], 'relation s(i32, i32); #[ds(eqrel)] relation r(i32, i32); relation o(i32, i32);\n r(x, y) <-- s(x, y);\n o(x, y) <-- s(x, _), s(_, y), r(x, y);\n o(x, x) <-- s(x, y), !r(y, x);', None),
    ('conv_f14', ['ascent'], 'relation s(i32, i32, i32); relation q(i32); #[ds(eqrel)] relation r(i32, i32, i32); relation o(i32, i32);\n r(k, x, y) <-- s(k, x, y);\n o(k, x) <-- q(y), r(k, x, y);', None),
    ('conv_f10', ['ascent_par', 'ascent_run_par'], 'lattice l(i32, i32); relation k(i32); relation o(i32, i32);\n o(x, s) <-- k(x), agg s = ascent::aggregators::sum(m) in l(x, m);', 'F10'),
    ('conv_f10_ser', ['ascent'], 'lattice l(i32, i32); relation k(i32); relation o(i32, i32);\n o(x, s) <-- k(x), agg s = ascent::aggregators::sum(m) in l(x, m);', None),
]


def known_converse(prog, macro):
    """well-formed shapes that are known not to compile (findings F9, F10): returned as a fact for the signature"""
    from vgen.ast import Agg
    for r in prog.rules:
        if X.has_f9_shape(r):
            return 'F9'
    if macro in ('ascent_par', 'ascent_run_par'):
        for r in prog.rules:
            for it in r.body:
                if isinstance(it, Agg) and prog.rel(it.rel).is_lat and it.bound:
                    return 'F10'
    return None


def run(ctx, only=None):
    sz = sizes(ctx)
    progs = []        # (name, macro, text)
    meta = {}
    n = 0
    while n < sz['programs']:
        rng = random.Random(ctx.rng.getrandbits(48))
        cfg = G2.default_cfg(lattices=rng.random() < 0.5, neg=True, agg=True, avoid_f9=rng.random() < 0.7, no_par_lat_agg=rng.random() < 0.7)
        cfg.dom = rng.choice([3, 4, 5])
        cfg.n_rels, cfg.n_rules = (3, 6), (3, 7)
        prog, input_rels = G2.gen_program(rng, cfg)
        if G.check_scoping(prog):
            continue
        macro = MACROS[n % 4]
        name = 'w%d' % n
        progs.append((name, macro, prog.text()))
        meta[name] = {'expect': 'accept', 'kind': 'well-formed', 'desc': 'generated well-formed program', 'known': known_converse(prog, macro)}
        muts = IF.mutations(prog, rng, sz['per_kind'])
        if macro in ('ascent', 'ascent_run'):
            muts += IF.serial_only(prog)
        for k, (kind, desc, text) in enumerate(muts):
            second = MACROS[(n + 1 + k) % 4]
            if kind == 'par_attr_in_serial' and second in ('ascent_par', 'ascent_run_par'):
                second = 'ascent_run' if macro == 'ascent' else 'ascent'      # ill-formed in the serial macros only
            for m in ([macro] if ctx.tier == 'quick' or second == macro else [macro, second]):     # names must be unique: one file per name
                nm = 'm%d_%d_%s' % (n, k, m)
                progs.append((nm, m, text))
                meta[nm] = {'expect': 'reject', 'kind': kind, 'desc': desc}
        n += 1
    for (cname, macros, text, known) in CONVERSE:
        for m in macros:
            nm = '%s_%s' % (cname, m)
            progs.append((nm, m, text))
            meta[nm] = {'expect': 'accept', 'kind': 'well-formed', 'desc': 'hand-written well-formed program (%s)' % cname, 'known': known}
    if only:
        progs = [p for p in progs if p[0] == only]
    ctx.rule = ('well-formed generated programs (must compile) and single-violation mutants of them: undeclared relation (head / body / negated / aggregated), wrong arity, '
                'negation or aggregation inside the relation\'s own recursive stratum (direct, via a second rule, via a multi-head rule, via a chain of 3 relations), rebinding a '
                'bound variable (let / for / if let / agg pattern / clause condition), self- and mutually recursive macros, include_source! inside ascent_source!, provider on a '
                'lattice, two ds attributes, unknown / misplaced attributes, inter_rule_parallelism in a serial macro; under all four macros. case = one program compiled by rustc; '
                'non-trivial = an ill-formed program rejected with an error located at the program, or a well-formed one accepted; distinct = distinct program texts')
    ctx.assumptions = ['the mutators produce ill-formed programs by construction (each adds exactly one listed violation)',
                       'an error is "at the program" when its primary span, followed through macro expansions, lies inside the macro invocation in the file']
    res = compilefail.compile_many(ctx, progs)
    per_kind = {}
    for (name, macro, text), r in zip(progs, res):
        m = meta[name]
        ctx.evaluations += 1
        st = r['status']
        k = per_kind.setdefault(m['kind'], {'programs': 0, 'held': 0})
        k['programs'] += 1
        witness = {'case': name, 'macro': macro, 'mutation': m['kind'], 'description': m['desc'], 'program': text.split('\n'), 'rustc': r}
        facts = {'expect': m['expect'], 'mutation': m['kind'], 'status': st, 'macro': macro, 'message': ' | '.join(r['messages'])[:300], 'known_shape': m.get('known')}
        if st == 'inconclusive':
            ctx.inconc('%s: %s' % (name, r['detail'][:200]))
            continue
        if m['expect'] == 'accept':
            if st == 'accepted':
                k['held'] += 1
                ctx.add_nontrivial(text, macro)
            else:
                witness['summary'] = 'well-formed program does not compile (%s): %s' % (st, facts['message'][:200])
                ctx.violation(name, witness, facts)
        else:
            if st == 'rejected' and r['at_program']:
                k['held'] += 1
                ctx.add_nontrivial(text, macro)
                if len(ctx.samples) < 3:
                    ctx.sample({'mutation': m['kind'], 'description': m['desc'], 'macro': macro, 'program': text.split('\n'), 'rustc_errors': r['messages']})
            else:
                witness['summary'] = 'ill-formed program (%s) not rejected cleanly: %s %s' % (m['desc'], st, 'error not located at the program' if st == 'rejected' else '')
                facts['at_program'] = r['at_program']
                ctx.violation(name, witness, facts)
    # module-level extras
    extra = []
    for i, (kind, desc, _, src) in enumerate(EXTRA_ILL):
        extra.append(('x%d' % i, kind, desc, src))
    import os
    compilefail.compile_many(ctx, [])
    for name, kind, desc, src in extra:
        full = compilefail.PRELUDE + src
        path = os.path.join(ctx.work, 'cf', name + '.rs')
        os.makedirs(os.path.dirname(path), exist_ok=True)
        r = compilefail.compile_one(path, full, 1, full.count('\n') + 1)
        ctx.evaluations += 1
        k = per_kind.setdefault(kind, {'programs': 0, 'held': 0})
        k['programs'] += 1
        if r['status'] == 'rejected' and r['at_program']:
            k['held'] += 1
            ctx.add_nontrivial(src)
        elif r['status'] == 'inconclusive':
            ctx.inconc('%s: %s' % (name, r['detail'][:200]))
        else:
            ctx.violation(name, {'case': name, 'description': desc, 'program': src.split('\n'), 'rustc': r, 'summary': 'ill-formed program (%s) not rejected cleanly: %s' % (desc, r['status'])},
                          {'expect': 'reject', 'mutation': kind, 'status': r['status']})
    ctx.cov['programs_per_mutation_kind'] = per_kind


def replay(ctx, path):
    w = json.load(open(path))
    ctx.seed, ctx.tier = w.get('seed', ctx.seed), w.get('tier', ctx.tier)
    ctx.rng = random.Random(core.stable_hash('%s/%d' % (ctx.prop, ctx.seed)))
    run(ctx, only=w['case'])
