#!/bin/bash
# usage: tools/seed_matrix.sh [seed names...]   — run every seeded change (default: all under seeded/) against the check of its
# property (quick tier, VERIF_SEED 1, then 2 and 3 if not yet detected) with tools/seed_run_ns.sh; prints one line per seed and
# writes seeded/MATRIX.md. /repo is never touched.
cd /verif
NAMES=${@:-$(ls seeded | grep -E '^C[0-9]+(-[0-9]+)?$')}
OUT=seeded/MATRIX.md
echo "| seeded change | check | detected at VERIF_SEED | result line |" > $OUT.tmp
echo "|---|---|---|---|" >> $OUT.tmp
for n in $NAMES; do
  prop=$(python3 -c "import json;print(json.load(open('seeded/$n/meta.json'))['property'])")
  checks=$(python3 -c "
import json
m=json.load(open('seeded/$n/meta.json'))
print(' '.join(m.get('matrix_checks') or [m['property'].split()[0]]))")
  neutral=$(python3 -c "import json;print('yes' if json.load(open('seeded/$n/meta.json')).get('neutralised') else '')")
  if [ -n "$neutral" ]; then
    echo "$n: neutralised by a later fix (see meta.json)"
    echo "| $n | - | neutralised by a later fix: the change no longer breaks the property (meta.json) | |" >> $OUT.tmp
    continue
  fi
  for chk in $checks; do
    hit=""; line=""
    for s in 1 2 3; do
      line=$(timeout 3600 tools/seed_run_ns.sh $n $chk quick $s | tail -1)
      v=$(echo "$line" | sed -n 's/.*violations=\([0-9]*\).*/\1/p')
      if [ -n "$v" ] && [ "$v" -gt 0 ]; then hit="$hit $s($v)"; break; else hit="$hit"; fi
    done
    [ -z "$hit" ] && hit="MISSED at 1 2 3"
    echo "$n -> $chk: $hit"
    echo "| $n | $chk | $hit | \`$(echo $line | cut -c1-140)\` |" >> $OUT.tmp
  done
done
# rows of seeded changes that were not re-run this time are kept from the previous matrix
if [ $# -gt 0 ] && [ -f $OUT ]; then
  python3 - "$OUT" "$OUT.tmp" <<'PY'
import sys
old, new = sys.argv[1], sys.argv[2]
def rows(p):
    d = {}
    for l in open(p):
        if l.startswith('| C'):
            k = tuple(x.strip() for x in l.split('|')[1:3])
            d[k] = l
    return d
o, n = rows(old), rows(new)
o.update(n)
def key(k):
    name = k[0]
    base, _, gen = name.partition('-')
    return (base, int(gen or 1), k[1])
with open(new, 'w') as f:
    f.write('| seeded change | check | detected at VERIF_SEED | result line |\n|---|---|---|---|\n')
    for k in sorted(o, key=key):
        f.write(o[k])
PY
fi
mv $OUT.tmp $OUT
