#!/bin/bash
# usage: tools/seed_run.sh <seed name> <check id> [tier] [seed]  — apply the seeded change to /repo, run a check, undo it
NAME=$1; CHECK=$2; TIER=${3:-quick}; SEED=${4:-1}
git -C /repo apply /verif/seeded/$NAME/patch.diff || exit 2
cd /verif && VERIF_SEED=$SEED ./check $CHECK --tier $TIER 2>&1 | grep -v "^  " | cut -c1-260 | tail -6
git -C /repo checkout -- . ; git -C /repo status --short | grep -v Cargo.lock
