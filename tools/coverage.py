#!/usr/bin/env python3
"""tools/coverage.py [check ids...]  — which code of /repo do the checks' workloads execute?

Runs the quick tier of the given checks (default: all) in coverage mode (VERIF_COV: -Cinstrument-coverage builds on the nightly
toolchain, one profile per process, including the rustc processes that load the instrumented proc-macro crate), merges the
profiles and writes coverage/REPORT.md: per source file of /repo the functions and lines executed, and the list of functions
that no workload reached. A measurement of reach, not a verdict: evidence files written by these runs are restored afterwards."""
import glob
import json
import os
import shutil
import subprocess
import sys

HERE = os.path.dirname(os.path.dirname(os.path.abspath(__file__)))
COV = os.path.join(HERE, '.work', 'cov')
OUT = os.path.join(HERE, 'coverage')


def tool(name):
    sysroot = subprocess.run(['rustc', '+nightly', '--print', 'sysroot'], stdout=subprocess.PIPE, text=True).stdout.strip()
    return os.path.join(sysroot, 'lib', 'rustlib', 'x86_64-unknown-linux-gnu', 'bin', name)


def main(ids):
    report_only = '--report-only' in ids
    ids = [i for i in ids if not i.startswith('--')] or ['C%02d' % i for i in range(1, 21)]
    if not report_only:
        shutil.rmtree(COV, ignore_errors=True)
    os.makedirs(COV, exist_ok=True)
    os.makedirs(OUT, exist_ok=True)
    env = dict(os.environ, VERIF_COV=COV)
    lines = []
    for c in ([] if report_only else ids):
        p = subprocess.run([os.path.join(HERE, 'check'), c, '--tier', 'quick'], env=env, stdout=subprocess.PIPE, stderr=subprocess.STDOUT, text=True)
        last = p.stdout.strip().splitlines()[-1] if p.stdout.strip() else ''
        print(c, 'rc=%d' % p.returncode, last[:200], flush=True)
        lines.append((c, p.returncode, last))
    subprocess.run(['git', 'checkout', '--', 'evidence'], cwd=HERE)
    raws = glob.glob(os.path.join(COV, '*.profraw'))
    prof = os.path.join(COV, 'merged.profdata')
    with open(os.path.join(COV, 'files.txt'), 'w') as f:
        f.write('\n'.join(raws))
    subprocess.run([tool('llvm-profdata'), 'merge', '-sparse', '--failure-mode=all', '-f', os.path.join(COV, 'files.txt'), '-o', prof], check=False)
    tdir = os.environ.get('VERIF_TARGET') or os.path.join(HERE, '.target')
    objs = []
    for pat in ('cov/debug/shard*', 'libmon_cov/release/c1*', 'cov/debug/deps/libascent_macro-*.so'):
        for o in glob.glob(os.path.join(tdir, pat)):
            if os.path.isfile(o) and os.access(o, os.X_OK) and not o.endswith('.d'):
                objs.append(o)
    args = []
    for o in objs:
        args += ['-object', o]
    exp = subprocess.run([tool('llvm-cov'), 'export', '-instr-profile', prof, '-ignore-filename-regex', r'(\.cargo|rustc|/verif/)'] + args[1:2] + args[2:],
                         stdout=subprocess.PIPE, stderr=subprocess.PIPE, text=True)
    if exp.returncode != 0:
        print(exp.stderr[-2000:])
        return 1
    data = json.loads(exp.stdout)['data'][0]
    files = {}
    for f in data['files']:
        fn = f['filename']
        if not fn.startswith('/repo/'):
            continue
        s = f['summary']
        files[fn] = {'lines': s['lines']['count'], 'lines_covered': s['lines']['covered'], 'functions': s['functions']['count'], 'functions_covered': s['functions']['covered']}
    never = {}
    seen = {}
    for fu in data['functions']:
        fns = [x for x in fu['filenames'] if x.startswith('/repo/')]
        if not fns:
            continue
        key = (fns[0], fu['regions'][0][0] if fu['regions'] else 0)
        seen[key] = max(seen.get(key, 0), fu['count'])
        never.setdefault(key, fu['name'])
    uncovered = sorted((k[0], k[1], never[k]) for k, c in seen.items() if c == 0)
    with open(os.path.join(OUT, 'REPORT.md'), 'w') as f:
        f.write('# Code of /repo reached by the quick tier of: %s\n\n' % ' '.join(ids))
        f.write('Measured with -Cinstrument-coverage (nightly), %d process profiles merged, %d instrumented objects. Generic functions count as reached if any instantiation ran.\n\n' % (len(raws), len(objs)))
        f.write('| check | exit | result |\n|---|---|---|\n')
        for c, rc, last in lines:
            f.write('| %s | %d | `%s` |\n' % (c, rc, last[:160]))
        f.write('\n| file | lines executed | functions executed |\n|---|---|---|\n')
        for fn in sorted(files):
            s = files[fn]
            f.write('| %s | %d / %d | %d / %d |\n' % (fn[6:], s['lines_covered'], s['lines'], s['functions_covered'], s['functions']))
        f.write('\n## Functions (first line of definition) that no workload executed\n\n')
        for fn, line, name in uncovered:
            f.write('- %s:%d `%s`\n' % (fn[6:], line, subprocess.run(['rustfilt'], input=name, stdout=subprocess.PIPE, text=True).stdout.strip() if shutil.which('rustfilt') else name[:120]))
    json.dump({'files': files, 'uncovered_functions': uncovered}, open(os.path.join(OUT, 'coverage.json'), 'w'), indent=1)
    print('wrote', os.path.join(OUT, 'REPORT.md'), 'files', len(files), 'functions never executed', len(uncovered))
    return 0


if __name__ == '__main__':
    sys.exit(main(sys.argv[1:]))
