#!/usr/bin/env python3
"""tools/coverage.py [check ids...]  — which code of /repo do the checks' workloads execute?

Runs the quick tier of the given checks (default: all) in coverage mode (VERIF_COV: -Cinstrument-coverage builds on the nightly
toolchain, one profile per process, including the rustc processes that load the instrumented proc-macro crate), merges the
profiles and writes coverage/REPORT.md: per source file of /repo the functions and lines executed, and the list of functions
that no workload reached. A measurement of reach, not a verdict: evidence files written by these runs are restored afterwards."""
import glob
import json
import os
import shutil
import subprocess
import sys

HERE = os.path.dirname(os.path.dirname(os.path.abspath(__file__)))
COV = os.path.join(HERE, '.work', 'cov')
OUT = os.path.join(HERE, 'coverage')


def tool(name):
    sysroot = subprocess.run(['rustc', '+nightly', '--print', 'sysroot'], stdout=subprocess.PIPE, text=True).stdout.strip()
    return os.path.join(sysroot, 'lib', 'rustlib', 'x86_64-unknown-linux-gnu', 'bin', name)


def objects():
    tdir = os.environ.get('VERIF_TARGET') or os.path.join(HERE, '.target')
    objs = []
    for pat in ('cov/debug/shard*', 'libmon_cov/release/c1*', 'cov/debug/deps/libascent_macro-*.so'):
        for o in glob.glob(os.path.join(tdir, pat)):
            if os.path.isfile(o) and os.access(o, os.X_OK) and not o.endswith('.d'):
                objs.append(o)
    return objs


def harvest(covdir, lines_acc, funcs_acc):
    """merge the profiles of one check and read them against the binaries that check has just built (the next check overwrites
    them); accumulates per-line and per-function execution counts"""
    raws = glob.glob(os.path.join(covdir, '*.profraw'))
    if not raws:
        return 0, 0
    prof = os.path.join(covdir, 'merged.profdata')
    with open(os.path.join(covdir, 'files.txt'), 'w') as f:
        f.write('\n'.join(raws))
    subprocess.run([tool('llvm-profdata'), 'merge', '-sparse', '--failure-mode=all', '-f', os.path.join(covdir, 'files.txt'), '-o', prof],
                   stdout=subprocess.DEVNULL, stderr=subprocess.DEVNULL)
    objs = objects()
    args = [objs[0]]
    for o in objs[1:]:
        args += ['-object', o]
    exp = subprocess.run([tool('llvm-cov'), 'export', '-format=lcov', '-instr-profile', prof, '-ignore-filename-regex', r'(\.cargo|rustc|/verif/)'] + args,
                         stdout=subprocess.PIPE, stderr=subprocess.PIPE, text=True)
    if exp.returncode != 0:
        print('llvm-cov failed:', exp.stderr[-500:])
        return len(raws), len(objs)
    cur = None
    fnline = {}
    for line in exp.stdout.splitlines():
        if line.startswith('SF:'):
            cur = line[3:]
            fnline = {}
        elif cur and cur.startswith('/repo/'):
            if line.startswith('FN:'):
                ln, name = line[3:].split(',', 1)
                fnline[name] = int(ln)
            elif line.startswith('FNDA:'):
                cnt, name = line[5:].split(',', 1)
                k = (cur, fnline.get(name, 0))
                prev = funcs_acc.get(k, (0, name))
                funcs_acc[k] = (max(prev[0], int(cnt)), prev[1])
            elif line.startswith('DA:'):
                ln, cnt = line[3:].split(',')[:2]
                d = lines_acc.setdefault(cur, {})
                d[int(ln)] = max(d.get(int(ln), 0), int(cnt))
    for r in raws:
        os.remove(r)
    return len(raws), len(objs)


def main(ids):
    report_only = False
    ids = [i for i in ids if not i.startswith('--')] or ['C%02d' % i for i in range(1, 21)]
    shutil.rmtree(COV, ignore_errors=True)
    os.makedirs(COV, exist_ok=True)
    os.makedirs(OUT, exist_ok=True)
    lines = []
    lines_acc, funcs_acc = {}, {}
    nprof = 0
    for c in ids:
        covdir = os.path.join(COV, c)
        env = dict(os.environ, VERIF_COV=covdir)
        p = subprocess.run([os.path.join(HERE, 'check'), c, '--tier', 'quick'], env=env, stdout=subprocess.PIPE, stderr=subprocess.STDOUT, text=True)
        last = p.stdout.strip().splitlines()[-1] if p.stdout.strip() else ''
        n, nobj = harvest(covdir, lines_acc, funcs_acc)
        nprof += n
        print(c, 'rc=%d' % p.returncode, 'profiles=%d objects=%d' % (n, nobj), last[:160], flush=True)
        lines.append((c, p.returncode, last))
    subprocess.run(['git', 'checkout', '--', 'evidence'], cwd=HERE)
    files = {}
    for fn, d in lines_acc.items():
        fl = [k for k in funcs_acc if k[0] == fn]
        files[fn] = {'lines': len(d), 'lines_covered': sum(1 for v in d.values() if v > 0), 'functions': len(fl), 'functions_covered': sum(1 for k in fl if funcs_acc[k][0] > 0)}
    uncovered = sorted((k[0], k[1], v[1]) for k, v in funcs_acc.items() if v[0] == 0)
    unlines = {fn: sorted(l for l, v in d.items() if v == 0) for fn, d in lines_acc.items()}
    with open(os.path.join(OUT, 'REPORT.md'), 'w') as f:
        f.write('# Code of /repo reached by the quick tier of: %s\n\n' % ' '.join(ids))
        f.write('Measured with -Cinstrument-coverage (nightly toolchain): %d process profiles (harness processes, monitor binaries, and the rustc processes that load the '
                'instrumented proc-macro crate), read per check against the binaries of that check and accumulated. A generic function counts as reached if any instantiation ran; '
                'functions that are never instantiated appear as not executed. A measurement of reach, not a verdict.\n\n' % nprof)
        f.write('| check | exit | result |\n|---|---|---|\n')
        for c, rc, last in lines:
            f.write('| %s | %d | `%s` |\n' % (c, rc, last[:160]))
        f.write('\n| file | lines executed | functions executed |\n|---|---|---|\n')
        for fn in sorted(files):
            s_ = files[fn]
            f.write('| %s | %d / %d | %d / %d |\n' % (fn[6:], s_['lines_covered'], s_['lines'], s_['functions_covered'], s_['functions']))
        tot = [sum(x[k] for x in files.values()) for k in ('lines_covered', 'lines', 'functions_covered', 'functions')]
        f.write('| **total** | %d / %d | %d / %d |\n' % tuple(tot))
        f.write('\n## Functions (file:first line) that no workload executed\n\n')
        for fn, line, name in uncovered:
            f.write('- %s:%d `%s`\n' % (fn[6:], line, name[:150]))
        f.write('\n## Lines never executed, per file\n\n')
        for fn in sorted(unlines):
            if unlines[fn]:
                f.write('- %s: %s\n' % (fn[6:], ' '.join(map(str, unlines[fn]))))
    json.dump({'files': files, 'uncovered_functions': uncovered, 'uncovered_lines': {k[6:]: v for k, v in unlines.items()}}, open(os.path.join(OUT, 'coverage.json'), 'w'), indent=1)
    print('wrote', os.path.join(OUT, 'REPORT.md'), 'files', len(files), 'functions never executed', len(uncovered))
    return 0


if __name__ == '__main__':
    sys.exit(main(sys.argv[1:]))
