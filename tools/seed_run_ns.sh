#!/bin/bash
# usage: tools/seed_run_ns.sh <seed name> <check id> [tier] [seed]
# Like seed_run.sh, but leaves /repo alone: the seeded change is applied to a scratch clone of /repo which is bind-mounted
# over /repo in a private mount namespace for the duration of the check (so concurrent runs against the real /repo are not disturbed).
NAME=$1; CHECK=$2; TIER=${3:-quick}; SEED=${4:-1}; S=${SCRATCH:-/tmp/mut/S}
[ -d $S/.git ] || { git clone -q /repo $S && cp /repo/Cargo.lock $S/; } || exit 2
# the scratch clone follows /repo's HEAD
[ "$(git -C $S rev-parse HEAD)" = "$(git -C /repo rev-parse HEAD)" ] || { git -C $S checkout -q -- . ; git -C $S fetch -q /repo HEAD && git -C $S reset -q --hard FETCH_HEAD; }
git -C $S checkout -q -- . && git -C $S apply /verif/seeded/$NAME/patch.diff || exit 2
unshare -m bash -c "mount --bind $S /repo && cd /verif && VERIF_TARGET=${S}_target VERIF_SEED=$SEED ./check $CHECK --tier $TIER 2>&1 | grep -v '^  ' | cut -c1-260 | tail -6"
git -C $S checkout -q -- .
