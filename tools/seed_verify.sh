#!/bin/bash
# usage: tools/seed_verify.sh <ID> [name]   — confirm a sub-agent's seeded change in its scratch worktree and file it under /verif/seeded/
set -u
ID=$1; NAME=${2:-$1}; WT=/tmp/mut/$NAME; OUT=/verif/seeded/$NAME
export CARGO_NET_OFFLINE=true
cd $WT || exit 2
[ -f _seed/patch.diff ] || { echo "no patch"; exit 2; }
echo "== patch applies to /repo HEAD?"; git -C /repo apply --check $WT/_seed/patch.diff && echo yes
echo "== existing tests with the change"
(cd $WT && cargo test --workspace --no-fail-fast --offline 2>&1 | grep -E "^test result" | awk '{p+=$4; f+=$6} END {print "passed",p,"failed",f}')
echo "== demo WITH change"
if [ -f $WT/_seed/demo/src/main.rs ]; then DEMO="cargo run --offline"; else DEMO="cargo test --offline"; fi
(cd $WT/_seed/demo && timeout 1800 $DEMO >/tmp/mut/$NAME.with.log 2>&1; echo "exit=$?"; tail -3 /tmp/mut/$NAME.with.log)
echo "== demo WITHOUT change"
(cd $WT && git apply -R _seed/patch.diff && cd _seed/demo && (timeout 1800 $DEMO >/tmp/mut/$NAME.without.log 2>&1; echo "exit=$?"; tail -3 /tmp/mut/$NAME.without.log); cd $WT && git apply _seed/patch.diff)
mkdir -p $OUT && cp $WT/_seed/patch.diff $OUT/ && rm -rf $OUT/demo && cp -r $WT/_seed/demo $OUT/demo && rm -rf $OUT/demo/target && cp $WT/_seed/README.md $OUT/AGENT_README.md
echo "filed under $OUT"
