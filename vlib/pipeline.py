"""Generic pipeline for program-level checks: cases -> cargo workspace -> build -> run jobs -> results."""
import os
import re
import sys
import time
import multiprocessing
from concurrent.futures import ThreadPoolExecutor

from . import core
from vgen import emit as E
from vgen import ref as R
from vgen import gen as G


class Job:
    def __init__(self, jid, case, variant, input_rows, steps=None, params=None, meta=None):
        self.id = jid
        self.case = case
        self.variant = variant          # Variant object
        self.input_rows = input_rows    # [(rel, python tuple)]
        self.steps = steps or [('run',)]
        self.params = params or {}
        self.meta = meta or {}
        self.result = None

    @property
    def progname(self):
        return '%s_%s' % (self.case.name, self.variant.name)


class Case:
    def __init__(self, name, ref_prog, variants, meta=None):
        self.name = name
        self.ref_prog = ref_prog
        self.variants = variants
        self.meta = meta or {}
        self.jobs = []
        self.build_failed = {}    # variant name -> error text

    def variant(self, name):
        for v in self.variants:
            if v.name == name:
                return v
        raise KeyError(name)


def show_rows(prog, rows):
    out = []
    for rel, tup in rows:
        if rel.endswith('!clear'):
            out.append((rel, []))       # pseudo row: the harness empties the relation's vector (the caller assigns new contents)
            continue
        r = prog.rel(rel)
        out.append((rel, [t.show(v) for t, v in zip(r.tys, tup)]))
    return out


def job_dict(job):
    prog = job.variant.prog
    steps = []
    for st in job.steps:
        if st[0] == 'add':
            steps.append(('add', show_rows(prog, st[1])))
        else:
            steps.append(st)
    return {'id': job.id, 'prog': job.progname, 'params': job.params, 'input': show_rows(prog, job.input_rows), 'steps': steps}


def build_and_run(ctx, cases, nshards=None, profile='dbg', features=(), per_job_timeout=180, opt_level=0,
                  run_env=None, wrapper=None, overlap=None, sanitizer=None):
    """Builds all variants of all cases and runs all their jobs. Fills job.result (core.JobResult or None)
    and case.build_failed. `overlap` is a callable executed while cargo builds (e.g. reference evaluation).
    Returns dict with build / run statistics."""
    nshards = nshards or core.NCPU
    wdir = os.path.join(ctx.work, 'ws')
    os.makedirs(ctx.work, exist_ok=True)
    # a crate with very many generated programs makes one rustc process need several GB: cap the programs per crate
    nvariants = sum(len(c.variants) for c in cases)
    nshards = max(nshards, min(64, -(-nvariants // 40)))
    shard_cases = core.split_shards(cases, nshards)
    shards = []
    where = {}      # progname -> (shard idx, file idx)
    for si, cs in enumerate(shard_cases):
        progs = []
        for c in cs:
            for v in c.variants:
                pn = '%s_%s' % (c.name, v.name)
                where[pn] = (si, len(progs), c, v)
                progs.append((pn, E.emit_variant(v), '%s::W' % v.name))
        shards.append(progs)
    E.write_workspace(wdir, shards, features=features, opt_level=opt_level)
    t0 = time.time()
    stats = {'programs': sum(len(s) for s in shards), 'shards': len(shards), 'compile_failures': 0}

    import threading
    build_res = {}

    def do_build():
        build_res['r'] = core.build_workspace(wdir, profile, sanitizer=sanitizer)
    th = threading.Thread(target=do_build)
    th.start()
    overlap_result = overlap() if overlap else None
    th.join()
    bins, out = build_res['r']
    rounds = 0
    while any(b is None for b in bins.values()) and rounds < 4:
        rounds += 1
        progress = False
        for m, b in bins.items():
            if b is not None:
                continue
            si = int(m[5:])
            files = core.culprit_files(out, m)
            if not files:
                continue
            keep = []
            for (pn, text, typath), fi in zip(shards[si], range(len(shards[si]))):
                if ('p%d.rs' % fi) in files:
                    _, _, c, v = where[pn]
                    errs = extract_errors(out, m, 'p%d.rs' % fi)
                    c.build_failed[v.name] = errs
                    stats['compile_failures'] += 1
                    progress = True
                    keep.append((pn, 'pub mod %s { pub struct W; }' % v.name, None))
                else:
                    keep.append((pn, text, typath))
            shards[si] = keep
            # rewrite the shard: failed programs are left out of the table
            d = os.path.join(wdir, m, 'src')
            mods, table = [], []
            for pi, (pn, text, typath) in enumerate(keep):
                with open(os.path.join(d, 'p%d.rs' % pi), 'w') as f:
                    f.write(text + '\n')
                mods.append('#[path = "p%d.rs"] mod p%d;' % (pi, pi))
                if typath:
                    table.append('      ("%s", vmon::run_job::<p%d::%s> as vmon::Runner),' % (pn, pi, typath))
            with open(os.path.join(d, 'main.rs'), 'w') as f:
                f.write('#![allow(warnings)]\n' + '\n'.join(mods) + '\nfn main() {\n   vmon::main_with(&[\n' + '\n'.join(table) + '\n   ]);\n}\n')
        if not progress:
            if stats.get('build_retries'):
                break
            # no diagnostic names a program: a transient failure (a compiler process killed under memory pressure, ...): build once more, fewer jobs
            stats['build_retries'] = 1
            os.environ['CARGO_BUILD_JOBS'] = '4'
            try:
                bins, out = core.build_workspace(wdir, profile, sanitizer=sanitizer)
            finally:
                os.environ.pop('CARGO_BUILD_JOBS', None)
            continue
        bins, out = core.build_workspace(wdir, profile, sanitizer=sanitizer)
    stats['build_s'] = round(time.time() - t0, 1)
    stats['build_output_tail'] = out[-1500:] if any(b is None for b in bins.values()) else ''
    if any(b is None for b in bins.values()):
        # keep the whole compiler output of a build failure that could not be attributed to a program
        logdir = os.path.join(core.VERIF, 'replays', ctx.prop)
        os.makedirs(logdir, exist_ok=True)
        logpath = os.path.join(logdir, 'unattributed_build_failure_seed%d.log' % ctx.seed)
        with open(logpath, 'w') as f:
            f.write('\n'.join(l for l in out.split('\n') if not l.startswith(('WARNING: cannot determine', 'vec! ['))))
        stats['build_failure_log'] = logpath
    for m, b in bins.items():
        if b is None:
            si = int(m[5:])
            for (pn, text, typath) in shards[si]:
                _, _, c, v = where[pn]
                c.build_failed.setdefault(v.name, 'shard failed to build and culprit could not be isolated:\n' + out[-3000:])

    built = {'bins': bins, 'where': where, 'nshards': len(shards)}
    rstats = run_jobs(ctx, cases, built, per_job_timeout=per_job_timeout, run_env=run_env, wrapper=wrapper)
    stats.update(rstats)
    stats['overlap_result'] = overlap_result
    stats['built'] = built
    return stats


def run_jobs(ctx, cases, built, per_job_timeout=180, run_env=None, wrapper=None):
    """runs case.jobs (those without a result yet) on already built shard binaries"""
    bins, where, nshards = built['bins'], built['where'], built['nshards']
    stats = {}
    shard_jobs = [[] for _ in range(nshards)]
    for c in cases:
        for j in c.jobs:
            if j.variant.name in c.build_failed or j.result is not None:
                continue
            si = where[j.progname][0]
            shard_jobs[si].append(j)
    t1 = time.time()
    incidents_all = []
    ctx._jobfile_seq = getattr(ctx, '_jobfile_seq', 0) + 1
    seq = ctx._jobfile_seq

    def run_one(si):
        alljobs = shard_jobs[si]
        if not alljobs:
            return
        m = 'shard%d' % si
        if bins.get(m) is None:
            return
        # jobs with different meta['process'] keys run in separate OS processes (per-process configuration such as
        # the lazily fixed shard count is then decided by each group's first job)
        groups = {}
        for j in alljobs:
            groups.setdefault(j.meta.get('process', ''), []).append(j)
        for gi, (pkey, jobs) in enumerate(groups.items()):
            jp = os.path.join(ctx.work, 'jobs%d_%d_%d.txt' % (si, seq, gi))
            op = os.path.join(ctx.work, 'out%d_%d_%d.txt' % (si, seq, gi))
            core.write_jobs(jp, [job_dict(j) for j in jobs])
            results, incidents = core.run_shard(bins[m], jp, op, len(jobs), per_job_timeout=per_job_timeout, env=run_env, wrapper=wrapper)
            for j in jobs:
                j.result = results.get(j.id)
            for (idx, kind, detail) in incidents:
                if idx < len(jobs):
                    jr = jobs[idx].result
                    if jr is None:
                        jr = core.JobResult(jobs[idx].id)
                        jobs[idx].result = jr
                    jr.crash = (kind, detail)
                incidents_all.append((si, idx, kind, detail))
            try:
                os.remove(op)
                os.remove(jp)
            except OSError:
                pass

    with ThreadPoolExecutor(max_workers=core.NCPU) as ex:
        list(ex.map(run_one, range(nshards)))
    stats['run_s'] = round(time.time() - t1, 1)
    stats['incidents'] = len(incidents_all)
    return stats


def extract_errors(out, member, fname):
    res = []
    block = []
    for line in out.splitlines():
        if line.startswith('error') or line.startswith('warning'):
            if block and any(('%s/src/%s' % (member, fname)) in l for l in block) and block[0].startswith('error'):
                res.append('\n'.join(block[:12]))
            block = [line]
        else:
            block.append(line)
    if block and any(('%s/src/%s' % (member, fname)) in l for l in block) and block[0].startswith('error'):
        res.append('\n'.join(block[:12]))
    return '\n'.join(res[:4])[:3000]


# ------------------------------------------------------------------------------------------------
# reference evaluation in parallel (fork; ASTs hold lambdas and cannot be pickled, so workers index into a global)

_REF_TASKS = None


def _ref_worker(i):
    prog, rows = _REF_TASKS[i]
    try:
        db, trace = R.evaluate(prog, G.input_to_dict(rows))
        return (i, 'ok', {k: (dict(v) if isinstance(v, dict) else set(v)) for k, v in db.items()}, trace.summary(), trace.nontrivial(prog))
    except R.NotStratifiable as e:
        return (i, 'unstrat', str(e), None, False)
    except Exception as e:  # noqa
        return (i, 'error', '%s: %s' % (type(e).__name__, e), None, False)


def ref_eval_many(tasks, procs=None):
    """tasks: list of (prog, input_rows). Returns list of (status, db, trace_summary, nontrivial)"""
    global _REF_TASKS
    _REF_TASKS = tasks
    procs = procs or max(1, core.NCPU - 2)
    if len(tasks) < 8:
        res = [_ref_worker(i) for i in range(len(tasks))]
    else:
        ctx = multiprocessing.get_context('fork')
        with ctx.Pool(procs) as pool:
            res = pool.map(_ref_worker, range(len(tasks)), chunksize=max(1, len(tasks) // (procs * 8)))
    res.sort(key=lambda r: r[0])
    _REF_TASKS = None
    return [r[1:] for r in res]


# ------------------------------------------------------------------------------------------------
# comparison helpers


def parse_rel_rows(prog, relname, rows):
    r = prog.rel(relname)
    out = []
    for line in rows:
        parts = line.split('\t') if line != '' else []
        if len(r.tys) == 0:
            out.append(())
            continue
        out.append(tuple(t.parse(p) for t, p in zip(r.tys, parts)))
    return out


def diff_sets(prog, relname, actual_rows, expected_set):
    """actual_rows: list of parsed tuples; compares as sets. Returns (missing, extra) lists"""
    a = set(actual_rows)
    return sorted(expected_set - a, key=repr), sorted(a - expected_set, key=repr)


def compare_step_to_db(prog, step, db, rels=None, lattice_keys=True):
    """Set comparison of a dumped step against a reference db. Returns list of diff dicts."""
    diffs = []
    for relname, rows in step['rels'].items():
        if rels is not None and relname not in rels:
            continue
        r = prog.rel(relname)
        actual = parse_rel_rows(prog, relname, rows)
        expected = R.db_rows(prog, db, relname)
        missing, extra = diff_sets(prog, relname, actual, expected)
        if missing or extra:
            diffs.append({'rel': relname, 'missing': [R.show_row(prog, relname, t) for t in missing[:20]],
                          'extra': [R.show_row(prog, relname, t) for t in extra[:20]],
                          'n_missing': len(missing), 'n_extra': len(extra)})
        if r.is_lat:
            keys = [t[:-1] for t in actual]
            if len(keys) != len(set(keys)):
                diffs.append({'rel': relname, 'dup_lattice_keys': len(keys) - len(set(keys))})
    return diffs
