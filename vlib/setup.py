"""./check --setup: build the harness support crates into /verif/.target from files on disk only (offline)."""
import os
import subprocess
import sys
import time

from . import core
from vgen import emit as E, types as T
from vgen.ast import *


def warm(profile='dbg', features=()):
    prog = Program([Rel('edge', [T.I32, T.I32]), Rel('path', [T.I32, T.I32])],
                   [Rule([Head('path', [V('x'), V('y')])], [Clause('edge', [AVar('x'), AVar('y')])]),
                    Rule([Head('path', [V('x'), V('z')])], [Clause('edge', [AVar('x'), AVar('y')]), Clause('path', [AVar('y'), AVar('z')])])])
    v = E.Variant('v0', prog, 'ascent')
    vp = E.Variant('v1', prog, 'ascent_par')
    wdir = os.path.join(core.WORK, 'setup-%d' % os.getpid(), 'ws')
    E.write_workspace(wdir, [[('warm_v0', E.emit_variant(v), 'v0::W'), ('warm_v1', E.emit_variant(vp), 'v1::W')]], features=features)
    bins, out = core.build_workspace(wdir, profile)
    ok = all(b is not None for b in bins.values())
    if not ok:
        print(out[-4000:])
    import shutil
    shutil.rmtree(os.path.dirname(wdir), ignore_errors=True)
    return ok


def main():
    t0 = time.time()
    ok = warm()
    print('setup: harness deps built into %s: %s (%.0fs)' % (core.TARGET, 'ok' if ok else 'FAILED', time.time() - t0))
    if not ok:
        return 2
    libmon = os.path.join(core.VERIF, 'harness', 'libmon')
    if os.path.exists(os.path.join(libmon, 'Cargo.toml')):
        import shutil
        lock = os.path.join(core.REPO, 'Cargo.lock')
        if os.path.exists(lock) and not os.path.exists(os.path.join(libmon, 'Cargo.lock')):
            shutil.copy(lock, os.path.join(libmon, 'Cargo.lock'))
        env = core.cargo_env({'CARGO_TARGET_DIR': os.path.join(core.TARGET, 'libmon')})
        p = subprocess.run(['cargo', 'build', '--offline', '--release', '--bins'], cwd=libmon, env=env)
        if p.returncode != 0:
            print('setup: libmon build FAILED')
            return 2
    from . import selftest
    rc = selftest.main()
    print('setup done in %.0fs' % (time.time() - t0))
    return rc
