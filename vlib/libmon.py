"""Library-level monitors (harness/libmon): build against /repo's current tree, run, parse JSON lines."""
import json
import os
import shutil
import subprocess

from . import core

LIBMON = os.path.join(core.VERIF, 'harness', 'libmon')


def build(profile='release', extra_env=None, target_sub='libmon', cargo_args=None, toolchain=None):
    lock = os.path.join(core.REPO, 'Cargo.lock')
    if os.path.exists(lock) and not os.path.exists(os.path.join(LIBMON, 'Cargo.lock')):
        shutil.copy(lock, os.path.join(LIBMON, 'Cargo.lock'))
    tdir = os.path.join(core.TARGET, target_sub)
    env = core.cargo_env({'CARGO_TARGET_DIR': tdir})
    if extra_env:
        env.update(extra_env)
    cmd = ['cargo'] + ([toolchain] if toolchain else []) + ['build', '--offline', '--bins'] + (['--release'] if profile == 'release' else []) + (cargo_args or [])
    p = subprocess.run(cmd, cwd=LIBMON, env=env, stdout=subprocess.PIPE, stderr=subprocess.STDOUT, text=True, timeout=3600)
    if p.returncode != 0:
        raise RuntimeError('libmon build failed:\n' + p.stdout[-3000:])
    return os.path.join(tdir, 'release' if profile == 'release' else 'debug')


def run_bin(bindir, name, args, timeout=3600, env=None):
    """returns (records, returncode, stderr tail)"""
    p = subprocess.run([os.path.join(bindir, name)] + list(args), stdout=subprocess.PIPE, stderr=subprocess.PIPE, text=True, timeout=timeout, env=env)
    recs = []
    for line in p.stdout.splitlines():
        line = line.strip()
        if line.startswith('{'):
            try:
                recs.append(json.loads(line))
            except ValueError:
                pass
    return recs, p.returncode, p.stderr[-2000:]
