"""Library-level monitors (harness/libmon): build against /repo's current tree, run, parse JSON lines."""
import json
import os
import shutil
import subprocess

from . import core

LIBMON = os.path.join(core.VERIF, 'harness', 'libmon')


def build(profile='release', extra_env=None, target_sub='libmon', cargo_args=None, toolchain=None):
    lock = os.path.join(core.REPO, 'Cargo.lock')
    if os.path.exists(lock) and not os.path.exists(os.path.join(LIBMON, 'Cargo.lock')):
        shutil.copy(lock, os.path.join(LIBMON, 'Cargo.lock'))
    if core.COV_DIR and not toolchain and not extra_env:
        target_sub, toolchain, extra_env = target_sub + '_cov', '+nightly', {'RUSTFLAGS': '-Cinstrument-coverage'}
    tdir = os.path.join(core.TARGET, target_sub)
    env = core.cargo_env({'CARGO_TARGET_DIR': tdir})
    if extra_env:
        env.update(extra_env)
    cmd = ['cargo'] + ([toolchain] if toolchain else []) + ['build', '--offline', '--bins'] + (['--release'] if profile == 'release' else []) + (cargo_args or [])
    p = subprocess.run(cmd, cwd=LIBMON, env=env, stdout=subprocess.PIPE, stderr=subprocess.STDOUT, text=True, timeout=3600)
    if p.returncode != 0:
        raise RuntimeError('libmon build failed:\n' + p.stdout[-3000:])
    return os.path.join(tdir, 'release' if profile == 'release' else 'debug')


def run_bin(bindir, name, args, timeout=3600, env=None):
    """returns (records, returncode, stderr tail); a watchdog timeout gives returncode 'timeout' (inconclusive, never a violation)"""
    try:
        p = subprocess.run([os.path.join(bindir, name)] + list(args), stdout=subprocess.PIPE, stderr=subprocess.PIPE, text=True, timeout=timeout, env=env)
        out, rc, err = p.stdout, p.returncode, p.stderr
    except subprocess.TimeoutExpired as e:
        out = e.stdout.decode('utf-8', 'replace') if isinstance(e.stdout, bytes) else (e.stdout or '')
        rc, err = 'timeout', 'watchdog: no result within %ds' % timeout
    recs = []
    for line in out.splitlines():
        line = line.strip()
        if line.startswith('{'):
            try:
                recs.append(json.loads(line))
            except ValueError:
                pass
    return recs, rc, err[-2000:]


def run_bin_sharded(bindir, name, args, nshards=None, timeout=3600, env=None):
    """the monitor binary as `nshards` OS processes (--shard=i --nshards=n), results merged: numeric fields of the statistics
    records are summed, violation records concatenated (de-duplicated), `done` only if every shard finished"""
    from concurrent.futures import ThreadPoolExecutor
    nshards = nshards or core.NCPU
    with ThreadPoolExecutor(max_workers=nshards) as ex:
        res = list(ex.map(lambda i: run_bin(bindir, name, list(args) + ['--shard=%d' % i, '--nshards=%d' % nshards], timeout, env), range(nshards)))
    stats, viols, seen = {}, [], set()
    done = True
    rcs, errs = [], []
    for recs, rc, err in res:
        rcs.append(rc)
        if err.strip():
            errs.append(err)
        if not any(r.get('done') for r in recs):
            done = False
        for r in recs:
            if r.get('violation'):
                k = json.dumps(r, sort_keys=True)
                if k not in seen:
                    seen.add(k)
                    viols.append(r)
            elif not r.get('done'):
                for k, v in r.items():
                    if isinstance(v, (int, float)) and not isinstance(v, bool):
                        stats[k] = stats.get(k, 0) + v
                    else:
                        stats.setdefault(k, v)
    out = ([stats] if stats else []) + viols + ([{'done': True}] if done else [])
    bad = [rc for rc in rcs if rc != 0]
    return out, (bad[0] if bad else 0), '\n'.join(errs)[-2000:]


HEAP_DIAGNOSTICS = ('double free or corruption', 'malloc(): ', 'free(): invalid', 'corrupted size vs. prev_size', 'munmap_chunk(): invalid', 'malloc_consolidate(): ',
                    'corrupted double-linked list', 'realloc(): invalid')


def crash_kind(rc, err):
    """how a monitor process died: 'memory' = the allocator's own consistency checks or a segmentation fault / bus error while the
    monitor (safe Rust on top of the library's safe API) was running: memory corruption inside the library, a violation;
    'alloc_failure' / 'killed' = resource exhaustion, inconclusive; None = not a crash"""
    if rc in (0, 'timeout') or rc is None:
        return None
    if 'memory allocation of' in err and 'failed' in err:
        return 'alloc_failure'
    if any(d in err for d in HEAP_DIAGNOSTICS) or rc in (-11, -7, 139, 135):
        return 'memory'
    if rc in (-9, 137):
        return 'killed'
    return None


def report_crash(ctx, name, args, rc, err):
    """call when the monitor binary did not finish; returns True if the crash was reported as a violation"""
    if crash_kind(rc, err) == 'memory':
        ctx.evaluations += 1
        ctx.nontrivial_counted += 2
        ctx.sample({'monitor': name, 'args': list(args), 'died_with': str(rc)})
        ctx.violation('monitor_crash_memory', {'case': name, 'args': list(args), 'returncode': str(rc), 'stderr_tail': err[-1500:].split('\n'),
                                               'summary': 'the monitor process (safe code over the safe API) died of memory corruption: rc=%s %s' % (rc, err.strip().split('\n')[-1][:200])},
                      {'what': 'memory_corruption'})
        return True
    return False
