"""E5: rustc as the monitored process. Compiles one small crate file per program against the prebuilt rlibs
(`rustc --emit=metadata`) and classifies the outcome."""
import glob
import json
import os
import re
import subprocess
import time
from concurrent.futures import ThreadPoolExecutor

from . import core

PRELUDE = '''#![allow(warnings)]
use ascent::{ascent, ascent_par, ascent_run, ascent_run_par, ascent_source};
use ascent::Dual;
use ascent_byods_rels::{eqrel, trrel, trrel_uf};
''' + ' '.join('pub const VC%d: i32 = %d;' % (i, i) for i in range(8)) + '\n'


def deps_dir(profile='dbg'):
    if core.COV_DIR:
        profile = 'cov'      # coverage mode: the instrumented build (nightly)
    return os.path.join(core.TARGET, profile, 'debug', 'deps')


def find_rlib(name, profile='dbg'):
    c = sorted(glob.glob(os.path.join(deps_dir(profile), 'lib%s-*.rlib' % name)), key=os.path.getmtime)
    return c[-1] if c else None


def wrap(macro, text):
    """crate source for one program; returns (source, first line of the invocation, last line)"""
    if macro in ('ascent', 'ascent_par'):
        src = PRELUDE + '%s! {\n%s\n}\nfn main() {}\n' % (macro, text)
    else:
        src = PRELUDE + 'fn main() {\n let _res = %s! {\n%s\n };\n}\n' % (macro, text)
    first = PRELUDE.count('\n') + (1 if macro in ('ascent', 'ascent_par') else 2)
    last = first + text.count('\n') + 2
    return src, first, last


def compile_one(path, src, first, last, timeout=120):
    with open(path, 'w') as f:
        f.write(src)
    ascent = find_rlib('ascent')
    byods = find_rlib('ascent_byods_rels')
    vmon = find_rlib('vmon')
    cmd = ['rustc'] + (['+nightly'] if core.COV_DIR else []) + ['--edition', '2021', '--crate-type', 'bin', '--emit=metadata', '--error-format=json', '-L', 'dependency=' + deps_dir(),
           '--extern', 'ascent=' + ascent, '--extern', 'ascent_byods_rels=' + byods, '--extern', 'vmon=' + vmon, '-o', path + '.rmeta', path]
    t0 = time.time()
    try:
        p = subprocess.run(cmd, stdout=subprocess.PIPE, stderr=subprocess.PIPE, timeout=timeout, text=True)
    except subprocess.TimeoutExpired:
        return {'status': 'hang', 'detail': 'rustc did not finish within %ds' % timeout, 'at_program': False, 'messages': []}
    msgs = []
    at_program = False
    panicked = False
    for line in p.stderr.splitlines():
        if not line.startswith('{'):
            if 'panicked' in line or 'internal compiler error' in line or 'stack overflow' in line or 'SIGSEGV' in line:
                panicked = True
            continue
        try:
            d = json.loads(line)
        except ValueError:
            continue
        if d.get('level') != 'error':
            continue
        msg = d.get('message', '')
        msgs.append(msg[:200])
        if 'proc macro panicked' in msg or 'internal compiler error' in msg:
            panicked = True
        for sp in d.get('spans', []):
            if sp.get('is_primary') and sp.get('file_name', '').endswith(os.path.basename(path)) and first <= sp.get('line_start', 0) <= last:
                at_program = True
            # spans inside macro expansions: follow the expansion chain to the program text
            e = sp.get('expansion')
            while e and not at_program:
                s2 = e.get('span', {})
                if s2.get('file_name', '').endswith(os.path.basename(path)) and first <= s2.get('line_start', 0) <= last:
                    at_program = True
                e = s2.get('expansion')
    for fpath in (path + '.rmeta',):
        try:
            os.remove(fpath)
        except OSError:
            pass
    if p.returncode == 0:
        return {'status': 'accepted', 'detail': '', 'at_program': False, 'messages': []}
    if panicked or p.returncode < 0 or p.returncode > 1:
        return {'status': 'macro_panic_or_ice', 'detail': (p.stderr[-600:]), 'at_program': at_program, 'messages': msgs[:4]}
    if not msgs:
        return {'status': 'inconclusive', 'detail': 'rustc failed without diagnostics: %s' % p.stderr[-300:], 'at_program': False, 'messages': []}
    return {'status': 'rejected', 'detail': '', 'at_program': at_program, 'messages': msgs[:4]}


def compile_many(ctx, progs, timeout=120):
    """progs: [(name, macro, text)] -> list of result dicts (same order)"""
    d = os.path.join(ctx.work, 'cf')
    os.makedirs(d, exist_ok=True)
    # the rlibs must come from /repo's current working tree: (re)build them through cargo first (a no-op when fresh)
    from . import setup
    if not getattr(ctx, '_rlibs_fresh', False):
        if not setup.warm():
            raise RuntimeError('cannot build ascent from /repo: nothing to compile against')
        ctx._rlibs_fresh = True

    def one(iitem):
        i, (name, macro, text) = iitem
        src, first, last = wrap(macro, text)
        # one file per program, whatever the names: two compilations must never share a path
        return compile_one(os.path.join(d, 'p%d_%s.rs' % (i, re.sub(r'\W', '_', name))), src, first, last, timeout)
    with ThreadPoolExecutor(max_workers=core.NCPU) as ex:
        return list(ex.map(one, enumerate(progs)))
