"""Driver core: check context (verdicts, evidence, known findings), workspace build, shard execution with
watchdog and crash isolation, output parsing."""
import json
import os
import random
import re
import shutil
import signal
import subprocess
import sys
import time
import hashlib

VERIF = os.path.dirname(os.path.dirname(os.path.abspath(__file__)))
REPO = os.environ.get('VERIF_REPO', '/repo')
WORK = os.path.join(VERIF, '.work')
TARGET = os.environ.get('VERIF_TARGET') or os.path.join(VERIF, '.target')
NCPU = os.cpu_count() or 8

LEVELS = ('exploration', 'fault_enumeration', 'model_checking', 'proof', 'translation_validation', 'other')


def cargo_env(extra=None):
    env = dict(os.environ)
    env['CARGO_NET_OFFLINE'] = 'true'
    env.setdefault('CARGO_TERM_COLOR', 'never')
    env.pop('RUSTFLAGS', None)
    if extra:
        env.update(extra)
    return env


def stable_hash(s):
    return int(hashlib.sha256(s.encode()).hexdigest()[:15], 16)


class Ctx:
    """One invocation of one check."""

    def __init__(self, prop, tier, seed, level='exploration'):
        self.prop, self.tier, self.seed, self.level = prop, tier, seed, level
        self.t0 = time.time()
        self.rng = random.Random(stable_hash('%s/%d' % (prop, seed)))
        self.violations = []       # (signature, replay path)
        self.known_hits = {}       # finding id -> count
        self.inconclusive = []     # strings
        self.evaluations = 0
        self.nontrivial = set()    # hashes of distinct non-trivial cases
        self.nontrivial_counted = 0   # distinct non-trivial cases counted by a monitor binary itself (library-level checks)
        self.samples = []
        self.cov = {}              # extra coverage counters
        self.rule = ''
        self.assumptions = []
        self.work = os.path.join(WORK, '%s-%d' % (prop, os.getpid()))
        self.findings = load_known_findings(prop)
        self.replay_dir = os.path.join(VERIF, 'replays', prop)

    # -------- verdict plumbing
    def count(self, key, n=1):
        self.cov[key] = self.cov.get(key, 0) + n

    def cov_max(self, key, v):
        self.cov[key] = max(self.cov.get(key, 0), v)

    def add_nontrivial(self, *parts):
        self.nontrivial.add(stable_hash(repr(parts)))

    def sample(self, obj, limit=3):
        if len(self.samples) < limit:
            self.samples.append(obj)

    def inconc(self, msg):
        self.inconclusive.append(msg)
        print('INCONCLUSIVE property=%s %s' % (self.prop, msg))
        sys.stdout.flush()

    def violation(self, case_name, witness, facts=None):
        """witness: json-able dict describing the failing case. `facts`: dict used by known-finding
        signatures. Returns True if reported as a new violation, False if explained by a known finding."""
        facts = facts or {}
        for f in self.findings:
            if f.get('status') == 'fixed':
                continue
            if finding_matches(f, facts):
                self.known_hits[f['id']] = self.known_hits.get(f['id'], 0) + 1
                return False
        os.makedirs(self.replay_dir, exist_ok=True)
        path = os.path.join(self.replay_dir, '%s.json' % re.sub(r'[^A-Za-z0-9_.-]', '_', case_name)[:80])
        witness = dict(witness)
        witness['property'] = self.prop
        witness['seed'] = self.seed
        witness['tier'] = self.tier
        witness['facts'] = facts
        with open(path, 'w') as f:
            json.dump(witness, f, indent=1, default=str)
        if len(self.violations) < 25:
            print('VIOLATION property=%s replay=%s' % (self.prop, path))
            if 'summary' in witness:
                print('  ' + str(witness['summary'])[:400])
            sys.stdout.flush()
        self.violations.append((case_name, path))
        return True

    # -------- finish
    def finish(self):
        wall = time.time() - self.t0
        for fid, n in sorted(self.known_hits.items()):
            f = [x for x in self.findings if x['id'] == fid][0]
            print('KNOWN-FINDING: property=%s %s: %s (re-observed on %d case(s))' % (self.prop, fid, f['what'], n))
        cov = dict(self.cov)
        cov['evaluations'] = int(self.evaluations)
        cov['distinct_nontrivial'] = len(self.nontrivial) + int(self.nontrivial_counted)
        cov['rule'] = self.rule
        cov['samples'] = self.samples
        cov['inconclusive'] = len(self.inconclusive)
        cov['inconclusive_samples'] = self.inconclusive[:5]
        cov['known_findings_reobserved'] = dict(self.known_hits)
        ev = {
            'property_id': self.prop, 'tier': self.tier, 'seed': int(self.seed), 'level': self.level,
            'coverage': cov, 'assumptions': self.assumptions, 'wall_s': round(wall, 2),
            'violations': len(self.violations),
        }
        os.makedirs(os.path.join(VERIF, 'evidence'), exist_ok=True)
        path = os.path.join(VERIF, 'evidence', '%s.json' % self.prop)
        with open(path, 'w') as f:
            json.dump(ev, f, indent=1, default=str)
        problems = validate_evidence(ev)
        shutil.rmtree(self.work, ignore_errors=True)
        print('%s tier=%s seed=%d: evaluations=%d distinct_nontrivial=%d violations=%d known=%d inconclusive=%d wall=%.1fs' % (
            self.prop, self.tier, self.seed, self.evaluations, len(self.nontrivial) + self.nontrivial_counted, len(self.violations),
            sum(self.known_hits.values()), len(self.inconclusive), wall))
        if self.violations:
            return 1
        if problems:
            print('HARNESS-ERROR evidence invalid: %s' % '; '.join(problems))
            return 2
        if self.evaluations == 0 or len(self.nontrivial) + self.nontrivial_counted < 2:
            print('HARNESS-ERROR nothing conclusive was observed (evaluations=%d, nontrivial=%d)' % (self.evaluations, len(self.nontrivial) + self.nontrivial_counted))
            return 2
        return 0


def validate_evidence(ev):
    probs = []
    for k in ('property_id', 'tier', 'seed', 'level', 'coverage', 'wall_s'):
        if k not in ev:
            probs.append('missing ' + k)
    if ev.get('tier') not in ('quick', 'thorough'):
        probs.append('bad tier')
    if ev.get('level') not in LEVELS:
        probs.append('bad level')
    cov = ev.get('coverage', {})
    if ev.get('level') in ('exploration', 'fault_enumeration'):
        if not isinstance(cov.get('evaluations'), int) or cov.get('evaluations', 0) < 1:
            probs.append('evaluations < 1')
        if not isinstance(cov.get('distinct_nontrivial'), int) or cov.get('distinct_nontrivial', 0) < 2:
            probs.append('distinct_nontrivial < 2')
        if not isinstance(cov.get('rule'), str):
            probs.append('rule missing')
        if not isinstance(cov.get('samples'), list) or len(cov.get('samples')) < 1:
            probs.append('samples empty')
    try:
        import jsonschema  # only in the tooling venv; optional
        schema = json.load(open('/root/.vp/EVIDENCE.schema.json'))
        jsonschema.validate(ev, schema)
    except ImportError:
        pass
    except Exception as e:   # noqa
        probs.append('schema: %s' % str(e)[:200])
    return probs


# ------------------------------------------------------------------------------------------------
# known findings


def load_known_findings(prop):
    path = os.path.join(VERIF, 'known_findings.json')
    if not os.path.exists(path):
        return []
    data = json.load(open(path))
    return [f for f in data.get('findings', []) if prop in f.get('properties', [])]


def finding_matches(f, facts):
    """A finding's `signature` is a dict of required facts; every key must be present in the failing case's
    facts with an equal value (lists: the case's value must be a subset of the listed values)."""
    sig = f.get('signature')
    if not sig:
        return False
    for k, want in sig.items():
        if k not in facts:
            return False
        have = facts[k]
        if isinstance(want, list) and not isinstance(have, list):
            if have not in want:
                return False
        elif isinstance(want, list):
            if not set(map(str, have)) <= set(map(str, want)):
                return False
        elif isinstance(want, str) and want.startswith('re:'):
            if not re.search(want[3:], str(have)):
                return False
        elif have != want:
            return False
    return True


# ------------------------------------------------------------------------------------------------
# building


SANITIZERS = {
    # name: (cargo prefix args, extra build args, RUSTFLAGS, binary sub-directory)
    'tsan': (['+nightly'], ['-Zbuild-std', '--target', 'x86_64-unknown-linux-gnu'], '-Zsanitizer=thread', 'x86_64-unknown-linux-gnu/debug'),
    'asan': (['+nightly'], ['--target', 'x86_64-unknown-linux-gnu'], '-Zsanitizer=address -Cforce-frame-pointers=yes', 'x86_64-unknown-linux-gnu/debug'),
}


# VERIF_COV=<dir>: coverage mode (tools/coverage.py): plain builds become -Cinstrument-coverage builds on the nightly toolchain (whose
# llvm-cov / llvm-profdata are used to read the profiles), every process started by a check writes its profile into <dir>
COV_DIR = os.environ.get('VERIF_COV')
if COV_DIR:
    os.makedirs(COV_DIR, exist_ok=True)
    os.environ['LLVM_PROFILE_FILE'] = os.path.join(COV_DIR, '%p-%8m.profraw')
    SANITIZERS['cov'] = (['+nightly'], [], '-Cinstrument-coverage', 'debug')


def build_jobs():
    """parallel compiler processes: one per core, but no more than the available memory allows at ~4 GB per process (a compiler
    killed by the kernel shows up as a build failure that names no program)"""
    try:
        for line in open('/proc/meminfo'):
            if line.startswith('MemAvailable:'):
                return max(2, min(NCPU, int(line.split()[1]) // (4 * 1024 * 1024)))
    except Exception:
        pass
    return NCPU


def build_workspace(wdir, profile='dbg', features_env=None, timeout=3600, log=None, sanitizer=None):
    """cargo build --keep-going. Returns (bins: {member: path or None}, stderr)."""
    if COV_DIR and not sanitizer:
        sanitizer, profile = 'cov', 'cov'
    tdir = os.path.join(TARGET, profile)
    os.makedirs(tdir, exist_ok=True)
    env = cargo_env({'CARGO_TARGET_DIR': tdir})
    if features_env:
        env.update(features_env)
    pre, extra, sub = [], [], 'debug'
    if sanitizer:
        pre, extra, rustflags, sub = SANITIZERS[sanitizer]
        env['RUSTFLAGS'] = rustflags
    cmd = ['cargo'] + pre + ['build', '--offline', '--keep-going', '-j', os.environ.get('CARGO_BUILD_JOBS', str(build_jobs()))] + extra
    p = subprocess.run(cmd, cwd=wdir, env=env, stdout=subprocess.PIPE, stderr=subprocess.STDOUT, timeout=timeout, text=True)
    members = sorted(d for d in os.listdir(wdir) if d.startswith('shard'))
    bins = {}
    for m in members:
        b = os.path.join(tdir, sub, m)
        # a stale binary from an earlier workspace must not be mistaken for a fresh one
        bins[m] = b if (os.path.exists(b) and p.returncode == 0) else None
    if p.returncode != 0:
        failed = set(re.findall(r'could not compile `(shard\d+)`', p.stdout))
        for m in members:
            b = os.path.join(tdir, sub, m)
            if m not in failed and os.path.exists(b) and os.path.getmtime(b) >= os.path.getmtime(os.path.join(wdir, 'Cargo.toml')) - 1:
                bins[m] = b
    return bins, p.stdout


def culprit_files(build_output, member):
    """source files of `member` mentioned in error diagnostics"""
    res = set()
    cur_err = False
    for line in build_output.splitlines():
        if line.startswith('error'):
            cur_err = True
        elif line.startswith('warning'):
            cur_err = False
        m = re.match(r'\s+--> (\S+?):(\d+):(\d+)', line)
        if m and cur_err and ('/%s/' % member) in m.group(1) or (m and cur_err and m.group(1).startswith(member + '/')):
            res.add(os.path.basename(m.group(1)))
    return res


# ------------------------------------------------------------------------------------------------
# jobs


def write_jobs(path, jobs):
    with open(path, 'w') as f:
        for j in jobs:
            params = ' '.join('%s=%s' % kv for kv in sorted(j.get('params', {}).items()))
            f.write('JOB %s %s %s\n' % (j['id'], j['prog'], params))
            for rel, row in j.get('input', []):
                f.write('I %s\t%s\n' % (rel, '\t'.join(row)) if row else 'I %s\n' % rel)
            for st in j['steps']:
                if st[0] == 'add':
                    f.write('S add\n')
                    for rel, row in st[1]:
                        f.write('A %s\t%s\n' % (rel, '\t'.join(row)) if row else 'A %s\n' % rel)
                else:
                    f.write('S %s\n' % ' '.join(str(x) for x in st))
            f.write('END\n')


class JobResult:
    def __init__(self, jid):
        self.id = jid
        self.reps = []        # list of (rep index, [step dicts])
        self.panics = []
        self.stats = {}
        self.crash = None     # description if the process died / hung during this job
        self.complete = False
        self.noprog = False


def parse_out(path):
    """returns (results: {job id: JobResult}, in_flight: job index or None, all_done)"""
    results = {}
    cur = None
    cur_steps = None
    cur_step = None
    cur_rel = None
    remaining = 0
    in_flight = None
    all_done = False
    if not os.path.exists(path):
        return results, None, False
    with open(path, errors='replace') as f:
        for line in f:
            line = line.rstrip('\n')
            if remaining > 0 and cur_rel is not None:
                cur_rel.append(line)
                remaining -= 1
                continue
            if line.startswith('BEGIN '):
                _, idx, jid = line.split(' ', 2)
                cur = results.setdefault(jid, JobResult(jid))
                in_flight = int(idx)
            elif line.startswith('END '):
                if cur is not None:
                    cur.complete = True
                cur = None
                in_flight = None
            elif line == 'ALLDONE':
                all_done = True
            elif cur is None:
                continue
            elif line.startswith('REP '):
                cur_steps = []
                cur.reps.append((int(line[4:]), cur_steps))
            elif line == 'ENDREP':
                cur_steps = None
            elif line.startswith('STEP '):
                cur_step = {'kind': line[5:], 'rels': {}, 'scc': '', 'sizes': ''}
                m = re.search(r'ret=(\w+)', line)
                if m:
                    cur_step['ret'] = m.group(1)
                m = re.search(r'ticks=(\d+)', line)
                if m:
                    cur_step['ticks'] = int(m.group(1))
                cur_steps.append(cur_step)
            elif line.startswith('SCC '):
                cur_step['scc'] = line[4:]
            elif line.startswith('SIZES '):
                cur_step['sizes'] = line[6:]
            elif line.startswith('REL '):
                _, name, n = line.split(' ')
                cur_rel = []
                cur_step['rels'][name] = cur_rel
                remaining = int(n)
            elif line.startswith('PANIC '):
                cur.panics.append(line[6:])
            elif line.startswith('NOPROG'):
                cur.noprog = True
            elif line.startswith('STATS '):
                for kv in line[6:].split(' '):
                    k, v = kv.split('=', 1)
                    cur.stats[k] = [int(x) for x in v.split(',')] if ',' in v else int(v)
    return results, in_flight, all_done


def gdb_backtrace(pid):
    try:
        p = subprocess.run(['gdb', '-p', str(pid), '-batch', '-ex', 'thread apply all bt 12'], stdout=subprocess.PIPE,
                           stderr=subprocess.DEVNULL, timeout=60, text=True)
        return p.stdout
    except Exception as e:  # noqa
        return 'gdb failed: %s' % e


def run_shard(binpath, jobs_path, out_path, njobs, per_job_timeout=120, env=None, wrapper=None):
    """Runs a shard binary over its job file, restarting after crashes / hangs.
    Returns (results, incidents) where incidents = [(job index, kind, detail)]."""
    incidents = []
    start = 0
    if os.path.exists(out_path):
        os.remove(out_path)
    attempts = 0
    while start < njobs and attempts < 50:
        attempts += 1
        cmd = (wrapper or []) + [binpath, jobs_path, out_path, str(start)]
        p = subprocess.Popen(cmd, stdout=subprocess.DEVNULL, stderr=subprocess.PIPE, env=env)
        # watchdog: progress = out file growth in BEGIN lines
        last_progress = time.time()
        last_size = -1
        hung = False
        while True:
            try:
                p.wait(timeout=2)
                break
            except subprocess.TimeoutExpired:
                pass
            try:
                size = os.path.getsize(out_path)
            except OSError:
                size = 0
            if size != last_size:
                last_size = size
                last_progress = time.time()
            elif time.time() - last_progress > per_job_timeout:
                hung = True
                bt1 = gdb_backtrace(p.pid)
                time.sleep(5)
                bt2 = gdb_backtrace(p.pid)
                p.kill()
                p.wait()
                break
        stderr = p.stderr.read().decode(errors='replace') if p.stderr else ''
        results, in_flight, all_done = parse_out(out_path)
        if all_done and not hung and p.returncode == 0:
            return results, incidents
        if in_flight is None:
            # died between jobs or before the first one
            if hung:
                incidents.append((start, 'hang-outside-job', ''))
            else:
                incidents.append((start, 'exit', 'rc=%s stderr=%s' % (p.returncode, stderr[-500:])))
            # find next unfinished job
            done = sum(1 for r in results.values() if r.complete)
            if done <= start and not results:
                return results, incidents
            start = max(start + 1, done)
            continue
        if hung:
            incidents.append((in_flight, 'hang', deadlock_diagnosis(bt1, bt2)))
        else:
            incidents.append((in_flight, 'crash', 'rc=%s stderr=%s' % (p.returncode, stderr[-800:])))
        with open(out_path, 'a') as f:
            f.write('\nEND %d crashed\n' % in_flight)
        start = in_flight + 1
    results, _, _ = parse_out(out_path)
    return results, incidents


def deadlock_diagnosis(bt1, bt2):
    """'deadlock' only if in both samples every thread sits in a lock / condvar / futex wait"""
    def all_waiting(bt):
        threads = re.split(r'\nThread \d+ ', bt)
        if len(threads) < 2:
            return False
        for t in threads[1:]:
            if not re.search(r'futex|pthread_cond|park|lock|syscall|wait', t):
                return False
        return True
    kind = 'deadlock' if (all_waiting(bt1) and all_waiting(bt2)) else 'undiagnosed'
    return kind + '\n' + bt2[-3000:]


def split_shards(items, n):
    shards = [[] for _ in range(n)]
    for i, it in enumerate(items):
        shards[i % n].append(it)
    return [s for s in shards if s]
