"""./check --selftest: oracle self-tests.
1. every expression form of vgen/ast.py: the Rust printer (compiled by rustc inside a real Ascent rule) against an
   independently written Python formula (not Expr.ev) on all operand values 0..5;
2. the reference evaluator against hand-computed answers (transitive closure, shortest paths, stratified negation +
   count);
3. the independent stratifier rejects a negative cycle."""
import os
import sys

from . import core, pipeline as P
from vgen import ref as R, gen as G, emit as E, types as T, corpus
from vgen.ast import *
from vgen.gen2 import DUALI


def expr_forms():
    x, y = V('x'), V('y')
    forms = [
        ('add_mod', Bin('+', x, y, 5), lambda a, b: (a + b) % 5),
        ('add_const_mod', Bin('+', x, K(3), 4), lambda a, b: (a + 3) % 4),
        ('mul_mod', Bin('*', x, K(3), 5), lambda a, b: (a * 3) % 5),
        ('sat_add', SatAdd(x, y, 7), lambda a, b: min(a + b, 7)),
        ('min', MinMax('min', x, y), lambda a, b: min(a, b)),
        ('max', MinMax('max', x, Bin('+', y, K(1), 6)), lambda a, b: max(a, (b + 1) % 6)),
        ('nested', Bin('+', MinMax('min', x, K(2)), Bin('*', y, K(2), 5), 5), lambda a, b: (min(a, 2) + (b * 2) % 5) % 5),
        ('closure', ClosureApp('x', Bin('+', x, y, 6), Bin('+', x, K(2), 6)), lambda a, b: (((a + 2) % 6) + b) % 6),
        ('match', MatchE(y, 2, x, 'x', Bin('+', x, K(1), 6)), lambda a, b: a if b == 2 else (b + 1) % 6),
        ('let_in', LetIn('x', Bin('+', x, K(1), 6), Bin('+', Bin('*', x, K(2), 6), y, 6)), lambda a, b: ((((a + 1) % 6) * 2) % 6 + b) % 6),
        ('let_in_nested', LetIn('y', Bin('+', y, x, 5), MinMax('max', y, LetIn('x', Bin('*', x, K(3), 5), Bin('+', x, y, 5)))),
         lambda a, b: max((b + a) % 5, ((a * 3) % 5 + (b + a) % 5) % 5)),
    ]
    conds = [
        ('lt', Cmp('<', x, y), lambda a, b: a < b), ('le', Cmp('<=', x, y), lambda a, b: a <= b), ('eq', Cmp('==', x, y), lambda a, b: a == b),
        ('ne', Cmp('!=', x, K(2)), lambda a, b: a != 2), ('gt', Cmp('>', x, y), lambda a, b: a > b), ('ge', Cmp('>=', x, K(3)), lambda a, b: a >= 3),
        ('and', BoolOp('&&', Cmp('<', x, y), Cmp('!=', y, K(4))), lambda a, b: a < b and b != 4),
        ('or', BoolOp('||', Cmp('==', x, K(0)), Cmp('>', y, K(3))), lambda a, b: a == 0 or b > 3),
        ('not', BoolOp('!', Cmp('<=', x, y)), lambda a, b: not (a <= b)),
    ]
    return forms, conds


def main():
    ok = True
    dom = 6
    forms, conds = expr_forms()
    rels = [Rel('d', [T.I32])]
    rules = []
    expect = {}
    for name, e, f in forms:
        rels.append(Rel('v_' + name, [T.I32, T.I32, T.I32]))
        rules.append(Rule([Head('v_' + name, [V('x'), V('y'), e])], [Clause('d', [AVar('x')]), Clause('d', [AVar('y')])]))
        expect['v_' + name] = {(a, b, f(a, b)) for a in range(dom) for b in range(dom)}
    for name, e, f in conds:
        rels.append(Rel('c_' + name, [T.I32, T.I32]))
        rules.append(Rule([Head('c_' + name, [V('x'), V('y')])], [Clause('d', [AVar('x')]), Clause('d', [AVar('y')]), If(e)]))
        expect['c_' + name] = {(a, b) for a in range(dom) for b in range(dom) if f(a, b)}
    # option construction / patterns, let, for (range and list), casts of aggregate results
    rels += [Rel('o', [T.I32, T.OptTy(T.I32)]), Rel('o2', [T.I32, T.I32]), Rel('lt', [T.I32, T.I32]), Rel('fr', [T.I32, T.I32]), Rel('fl', [T.I32, T.I32]),
             Rel('cnt', [T.I32]), Rel('mn', [T.I32])]
    rules += [
        Rule([Head('o', [V('x'), MkOpt(Cmp('<', V('x'), K(3)), Bin('+', V('x'), K(1), 9))])], [Clause('d', [AVar('x')])]),
        Rule([Head('o2', [V('x'), V('z')])], [Clause('o', [AVar('x'), APat('Some', 'z')])]),
        Rule([Head('lt', [V('x'), V('w')])], [Clause('d', [AVar('x')]), Let('w', Bin('*', V('x'), K(2), 7))]),
        Rule([Head('fr', [V('x'), V('i')])], [Clause('d', [AVar('x')]), For('i', Range(MinMax('min', V('x'), K(2)), V('x')))]),
        Rule([Head('fl', [V('x'), V('i')])], [Clause('d', [AVar('x')]), For('i', ListE([V('x'), K(0), Bin('+', V('x'), K(1), 6)]))]),
        Rule([Head('cnt', [V('n')])], [Agg('n', 'count', [], 'd', [AWild()], None, '(n as i32)', int)]),
        Rule([Head('mn', [V('m')])], [Agg('m', 'mean', ['q'], 'd', [AVar('q')], None, '((m * 4.0) as i32)', lambda m: int(m * 4.0))]),
    ]
    expect['o'] = {(a, ((a + 1) % 9,) if a < 3 else None) for a in range(dom)}
    expect['o2'] = {(a, (a + 1) % 9) for a in range(dom) if a < 3}
    expect['lt'] = {(a, (a * 2) % 7) for a in range(dom)}
    expect['fr'] = {(a, i) for a in range(dom) for i in range(min(a, 2), a)}
    expect['fl'] = {(a, i) for a in range(dom) for i in (a, 0, (a + 1) % 6)}
    expect['cnt'] = {(dom,)}
    expect['mn'] = {(int(sum(range(dom)) / dom * 4.0),)}
    prog = Program(rels, rules)
    inp = [('d', (a,)) for a in range(dom)]
    # (1a) python semantics (Expr.ev through the reference) vs the independent formulas
    db, _ = R.evaluate(prog, G.input_to_dict(inp))
    for rel, want in expect.items():
        if set(db[rel]) != want:
            ok = False
            print('SELFTEST FAIL: reference evaluator disagrees with the hand-written formula for %s: %s' % (rel, sorted(set(db[rel]) ^ want)[:5]))
    # (1b) rust semantics vs the independent formulas
    ctx = core.Ctx('SELFTEST', 'quick', 1)
    case = P.Case('st', prog, [E.Variant('v0', prog, 'ascent'), E.Variant('v1', prog, 'ascent_par')])
    for v in case.variants:
        case.jobs.append(P.Job('st_' + v.name, case, v, inp))
    P.build_and_run(ctx, [case], nshards=1)
    for j in case.jobs:
        if j.result is None or not j.result.reps:
            ok = False
            print('SELFTEST FAIL: no result from the Rust side (%s) %s' % (j.id, case.build_failed))
            continue
        step = j.result.reps[0][1][-1]
        for rel, want in expect.items():
            got = set(P.parse_rel_rows(prog, rel, step['rels'][rel]))
            if got != want:
                ok = False
                print('SELFTEST FAIL: Rust semantics of %s (%s) differ from the formula: %s' % (rel, j.variant.kind, sorted(got ^ want, key=repr)[:5]))
    import shutil
    shutil.rmtree(ctx.work, ignore_errors=True)
    # (2) reference evaluator vs hand-computed answers
    rng = __import__('random').Random(1)
    _, tc, _, _ = corpus.tc(rng)
    db, _ = R.evaluate(tc, {'edge': [(1, 2), (2, 3), (3, 4)]})
    if db['path'] != {(1, 2), (2, 3), (3, 4), (1, 3), (2, 4), (1, 4)}:
        ok = False
        print('SELFTEST FAIL: reference TC of a 4-chain: %s' % sorted(db['path']))
    db, _ = R.evaluate(tc, {'edge': [(1, 2), (2, 1)]})
    if db['path'] != {(1, 2), (2, 1), (1, 1), (2, 2)}:
        ok = False
        print('SELFTEST FAIL: reference TC of a 2-cycle: %s' % sorted(db['path']))
    _, sp, _, _ = corpus.sp_count(rng)
    db, _ = R.evaluate(sp, {'edge': [(0, 1, 1), (1, 2, 1), (0, 2, 5), (2, 0, 1)]})
    want_sp = {(0, 1): 1, (1, 2): 1, (0, 2): 2, (2, 0): 1, (1, 0): 2, (2, 1): 2, (0, 0): 3, (1, 1): 3, (2, 2): 3}
    if db['sp'] != want_sp or db['cnt'] != {(9,)}:
        ok = False
        print('SELFTEST FAIL: reference shortest paths: %s cnt=%s' % (db['sp'], db['cnt']))
    _, na, _, _ = corpus.neg_agg_chain(rng)
    db, _ = R.evaluate(na, {'edge': [(0, 1), (1, 2)]})
    if db['deg'] != {(0, 2), (1, 1), (2, 0)} or db['unreach'] != {(0, 0), (1, 0), (1, 1), (2, 0), (2, 1), (2, 2)} or db['top'] != {(0,)} or db['nuntop'] != {(1,)}:
        ok = False
        print('SELFTEST FAIL: reference negation/aggregation chain: deg=%s unreach=%s top=%s nuntop=%s' % (db['deg'], sorted(db['unreach']), db['top'], db['nuntop']))
    # (3) stratifier
    bad = Program([Rel('a', [T.I32]), Rel('b', [T.I32])], [Rule([Head('a', [V('x')])], [Clause('b', [AVar('x')])]),
                                                            Rule([Head('b', [V('x')])], [Clause('a', [AVar('x')]), Neg('a', [AVar('x')])])])
    try:
        R.stratify(bad)
        ok = False
        print('SELFTEST FAIL: negative cycle not rejected by the reference stratifier')
    except R.NotStratifiable:
        pass
    print('selftest: %s' % ('ok' if ok else 'FAILED'))
    return 0 if ok else 2
