"""E7: sanitizer passes. TSan / ASan builds of generated harness workspaces (nightly, -Zsanitizer), Miri runs of tiny
workspaces and of the library monitors. A report counts only if one of its stack frames lies in /repo sources or in the
generated program (the shard crate); reports entirely inside dependencies are counted and ignored."""
import glob
import os
import re
import subprocess

from . import core, diffrun, libmon

STAT_STATICS = ['MOVE_REL_INDEX_CONTENTS_TOTAL_TIME', 'INDEX_INSERT_TOTAL_TIME', 'MOVE_FULL_INDEX_CONTENTS_TOTAL_TIME', 'MOVE_NO_INDEX_CONTENTS_TOTAL_TIME',
                'MERGE_TIME', 'MERGE_COUNT', 'MERGE_DELTA_CONSTRUCTION_TIME', 'MERGE_TOTAL_UPDATE_TIME', 'DEPTH_COUNT', 'DEPTH_SUM', 'MERGE_MULTIPLE_TIME',
                'ADD_SET_CONNECTION_TIME']


def statics_are_write_only():
    """the suppressed statistics statics must never be read by evaluation code: grep /repo for any use that is not `+=` / declaration"""
    bad = []
    for root in ('ascent/src', 'byods/ascent-byods-rels/src', 'ascent_macro/src'):
        for path in glob.glob(os.path.join(core.REPO, root, '**', '*.rs'), recursive=True):
            for ln, line in enumerate(open(path, errors='replace'), 1):
                for s in STAT_STATICS:
                    if re.search(r'\\b%s\\b' % s, line):
                        t = line.strip()
                        if t.startswith('//') or 'static mut' in t or re.search(r'%s\\s*\\+=' % s, t):
                            continue
                        if 'println!' in t or 'eprintln!' in t:
                            continue     # printed by tests / benchmarks only
                        bad.append('%s:%d: %s' % (path, ln, t))
    return bad


def run_cases_san(ctx, cases, kind, **kw):
    """runs the differential engine on a sanitizer build; returns dict with report statistics (violations are filed on ctx)"""
    sandir = os.path.join(ctx.work, 'san_' + kind)
    env = san_env(ctx, kind, sandir)
    bad = statics_are_write_only() if kind == 'tsan' else []
    if bad:
        ctx.inconc('a suppressed statistics static is read somewhere: suppression list no longer justified: %s' % bad[:2])
    stats = diffrun.run_cases(ctx, cases, sanitizer=kind, profile=kind, run_env=env, closure=False, **kw)
    st = collect_reports(ctx, sandir, kind)
    st['programs'] = stats['programs']
    return st


def collect_reports(ctx, sandir, kind, what='generated programs'):
    reports = []
    for path in glob.glob(os.path.join(sandir, 'rep.*')):
        text = open(path, errors='replace').read()
        for block in re.split(r'(?m)^={18}\s*$', text):
            if 'WARNING: ThreadSanitizer' in block or 'ERROR: AddressSanitizer' in block:
                reports.append(block)
    relevant, ignored = {}, 0
    for b in reports:
        frames = re.findall(r'#\d+ (\S.*?) (\S+?):(\d+)', b)
        mine = [(fn, fl) for fn, fl, ln in frames if '/repo/' in fl or ('/ws/shard' in fl) or ('/.work/' in fl and '/shard' in fl)]
        if not mine:
            ignored += 1
            continue
        key = (re.search(r'(ThreadSanitizer|AddressSanitizer): ([^\n(]+)', b).group(2).strip(),) + tuple(mine[:2])
        relevant.setdefault(key, b)
    for key, b in relevant.items():
        ctx.violation('%s_%s' % (kind, core.stable_hash(repr(key)) % 100000),
                      {'case': 'sanitizer', 'sanitizer': kind, 'report': b.split('\n')[:60], 'summary': '%s report: %s' % (kind, ' | '.join(map(str, key))[:300])},
                      {'kind': 'sanitizer', 'sanitizer': kind, 'what': key[0], 'frames': [f[0] for f in key[1:]]})
    return {'sanitizer': kind, 'workload': what, 'reports': len(reports), 'reports_with_repo_frames_deduplicated': len(relevant), 'reports_only_in_dependencies': ignored}


def san_env(ctx, kind, sandir):
    os.makedirs(sandir, exist_ok=True)
    env = dict(os.environ)
    if kind == 'tsan':
        supp = os.path.join(sandir, 'supp.txt')
        with open(supp, 'w') as f:
            for s in STAT_STATICS:
                f.write('race:%s\n' % s)
        env['TSAN_OPTIONS'] = 'halt_on_error=0 exitcode=0 report_signal_unsafe=0 log_path=%s suppressions=%s' % (os.path.join(sandir, 'rep'), supp)
    else:
        env['ASAN_OPTIONS'] = 'halt_on_error=0 exitcode=0 detect_leaks=0 log_path=%s' % os.path.join(sandir, 'rep')
    return env


def libmon_san(ctx, kind, binname, args, timeout=3600):
    """builds harness/libmon with a sanitizer (debug profile, nightly) and runs one monitor binary under it.
    Returns (records, report statistics)"""
    import json
    pre, extra, rustflags, sub = core.SANITIZERS[kind]
    tdir = os.path.join(core.TARGET, 'libmon_' + kind)
    lock = os.path.join(core.REPO, 'Cargo.lock')
    if os.path.exists(lock) and not os.path.exists(os.path.join(libmon.LIBMON, 'Cargo.lock')):
        import shutil
        shutil.copy(lock, os.path.join(libmon.LIBMON, 'Cargo.lock'))
    env = core.cargo_env({'CARGO_TARGET_DIR': tdir, 'RUSTFLAGS': rustflags})
    p = subprocess.run(['cargo'] + pre + ['build', '--offline', '--bin', binname] + extra, cwd=libmon.LIBMON, env=env, stdout=subprocess.PIPE, stderr=subprocess.STDOUT, text=True, timeout=3600)
    if p.returncode != 0:
        ctx.inconc('%s build of libmon failed: %s' % (kind, p.stdout[-400:]))
        return [], {'sanitizer': kind, 'reports': 0, 'build_failed': True}
    sandir = os.path.join(ctx.work, 'san_%s_%s' % (kind, binname))
    renv = san_env(ctx, kind, sandir)
    try:
        r = subprocess.run([os.path.join(tdir, sub, binname)] + list(args), env=renv, stdout=subprocess.PIPE, stderr=subprocess.PIPE, text=True, timeout=timeout)
        out = r.stdout
    except subprocess.TimeoutExpired:
        ctx.inconc('%s run of %s timed out' % (kind, binname))
        out = ''
    recs = []
    for line in out.splitlines():
        if line.startswith('{'):
            try:
                recs.append(json.loads(line))
            except ValueError:
                pass
    st = collect_reports(ctx, sandir, kind, what='%s %s' % (binname, ' '.join(args)))
    return recs, st


MIRI_FLAGS = '-Zmiri-disable-isolation -Zmiri-tree-borrows -Zmiri-ignore-leaks'


def miri_libmon(ctx, binname, args, timeout=3600, extra_flags=''):
    """cargo +nightly miri run of a library monitor. Returns (records, ub_report or None)"""
    import json
    env = core.cargo_env({'CARGO_TARGET_DIR': os.path.join(core.TARGET, 'miri_libmon'), 'MIRIFLAGS': (MIRI_FLAGS + ' ' + extra_flags).strip(),
                          'RAYON_NUM_THREADS': '3'})
    libmon.build  # noqa (lock file handling is done by build(); make sure it exists)
    lock = os.path.join(core.REPO, 'Cargo.lock')
    if os.path.exists(lock) and not os.path.exists(os.path.join(libmon.LIBMON, 'Cargo.lock')):
        import shutil
        shutil.copy(lock, os.path.join(libmon.LIBMON, 'Cargo.lock'))
    try:
        p = subprocess.run(['cargo', '+nightly', 'miri', 'run', '--offline', '--bin', binname, '--'] + list(args), cwd=libmon.LIBMON, env=env,
                           stdout=subprocess.PIPE, stderr=subprocess.PIPE, text=True, timeout=timeout)
    except subprocess.TimeoutExpired:
        return [], 'timeout'
    recs = []
    for line in p.stdout.splitlines():
        if line.startswith('{'):
            try:
                recs.append(json.loads(line))
            except ValueError:
                pass
    ub = None
    if 'Undefined Behavior' in p.stderr or 'error: unsupported operation' in p.stderr or (p.returncode != 0 and 'error' in p.stderr):
        ub = p.stderr[-4000:]
    return recs, ub


def miri_workspace(ctx, cases, timeout=5400):
    """runs every job of `cases` under Miri (one `cargo miri run` per shard). Fills job.result like pipeline.run_jobs. Returns ub reports."""
    from . import pipeline as P
    from vgen import emit as E
    # a fixed path: cargo-miri records the package directory next to the build output, and the build output is reused across runs
    # (the per-run work directory is gone by then)
    wdir = os.path.join(core.WORK, 'miri_ws_' + ctx.prop)
    import shutil
    shutil.rmtree(wdir, ignore_errors=True)
    # ... and forget the shard crates of earlier runs (cargo would call identical sources built elsewhere "fresh")
    import glob
    for pat in ('miri/*/debug/shard*', 'miri/*/debug/.fingerprint/shard*', 'miri/*/debug/deps/shard*', 'miri/*/debug/incremental/shard*'):
        for f in glob.glob(os.path.join(core.TARGET, 'miri_ws', pat)):
            if os.path.isdir(f):
                shutil.rmtree(f, ignore_errors=True)
            else:
                try:
                    os.remove(f)
                except OSError:
                    pass
    shard_cases = core.split_shards(cases, min(len(cases), core.NCPU))
    shards, where = [], {}
    for si, cs in enumerate(shard_cases):
        progs = []
        for c in cs:
            for v in c.variants:
                pn = '%s_%s' % (c.name, v.name)
                where[pn] = si
                progs.append((pn, E.emit_variant(v), '%s::W' % v.name))
        shards.append(progs)
    E.write_workspace(wdir, shards)
    reports = []
    from concurrent.futures import ThreadPoolExecutor

    def one(si):
        jobs = [j for c in cases for j in c.jobs if where[j.progname] == si]
        if not jobs:
            return
        jp = os.path.join(ctx.work, 'mjobs%d.txt' % si)
        op = os.path.join(ctx.work, 'mout%d.txt' % si)
        if os.path.exists(op):
            os.remove(op)
        core.write_jobs(jp, [P.job_dict(j) for j in jobs])
        env = core.cargo_env({'CARGO_TARGET_DIR': os.path.join(core.TARGET, 'miri_ws'), 'MIRIFLAGS': MIRI_FLAGS})
        try:
            p = subprocess.run(['cargo', '+nightly', 'miri', 'run', '--offline', '-p', 'shard%d' % si, '--', jp, op], cwd=wdir, env=env,
                               stdout=subprocess.PIPE, stderr=subprocess.PIPE, text=True, timeout=timeout)
            err = p.stderr
        except subprocess.TimeoutExpired:
            err = 'timeout'
        results, in_flight, done = core.parse_out(op)
        for j in jobs:
            j.result = results.get(j.id)
        if 'Undefined Behavior' in err or 'unsupported operation' in err:
            reports.append((si, in_flight, err[-4000:]))
        elif not done:
            try:
                logdir = os.path.join(core.VERIF, 'replays', ctx.prop)
                os.makedirs(logdir, exist_ok=True)
                with open(os.path.join(logdir, 'miri_incomplete_shard%d.log' % si), 'w') as f:
                    f.write(err)
            except OSError:
                pass
            reports.append((si, in_flight, 'INCOMPLETE: ' + err[-1500:]))
    with ThreadPoolExecutor(max_workers=core.NCPU) as ex:
        list(ex.map(one, range(len(shards))))
    return reports
