"""Shared engine E1: differential run of generated cases against the reference evaluator.

For every job, every observed step (a `run`, `timeout` or `measure` step produces one observation) is compared
with what the reference computes from the facts loaded so far (job.meta['expect'][k], default: the job's input).
"""
import json

from vlib import core, pipeline as P
from vgen import gen as G, ref as R
from vgen.ast import *


def closure_violations(prog, actual_db, limit=5):
    """head instances derivable in one naive pass over Ascent's own result that are not in it
    (relations: tuple absent; lattices: key absent or value not <= the stored one)"""
    out = []
    R.Budget.steps = 0
    for ri, rule in enumerate(prog.rules):
        for env in R.solve(prog, actual_db, rule.body, 0, {}):
            for h in rule.heads:
                tup = tuple(a.ev(env) for a in h.args)
                rel = prog.rel(h.rel)
                if rel.is_lat:
                    cur = actual_db[h.rel].get(tup[:-1], None)
                    ok = tup[:-1] in actual_db[h.rel] and rel.tys[-1].leq(tup[-1], cur)
                else:
                    ok = tup in actual_db[h.rel]
                if not ok:
                    out.append((ri, h.rel, tup))
                    if len(out) > limit:
                        return out
    return out


def step_to_db(prog, step):
    """Ascent's dumped relations as a reference-style db (lattices: last row per key wins; duplicates are
    reported separately by compare_step_to_db)"""
    db = R.new_db(prog)
    for relname, rows in step['rels'].items():
        rel = prog.rel(relname)
        for t in P.parse_rel_rows(prog, relname, rows):
            if rel.is_lat:
                db[relname][t[:-1]] = t[-1]
            else:
                db[relname].add(t)
    return db


def nonmonotone_rels(prog):
    """relations whose contents depend (transitively) on a negation or an aggregate: for them a missing tuple
    upstream may show up as an extra tuple"""
    nm = set()
    changed = True

    def has_negagg(items):
        for it in items:
            if isinstance(it, (Neg, Agg)):
                return True
            if isinstance(it, Disj) and any(has_negagg(a) for a in it.alts):
                return True
        return False

    def reads(items):
        out = set()
        for it in items:
            if isinstance(it, Clause):
                out.add(it.rel)
            elif isinstance(it, Disj):
                for a in it.alts:
                    out |= reads(a)
        return out
    while changed:
        changed = False
        for r in prog.rules:
            if has_negagg(r.body) or (reads(r.body) & nm):
                for h in r.heads:
                    if h.rel not in nm:
                        nm.add(h.rel)
                        changed = True
    return nm


def to_base_terms(c, j, step):
    """variants with renamed relations / re-typed constants dump in their own terms: map back to the base program's"""
    back = getattr(j.variant, 'back', None)
    if back is None:
        return step
    vprog, prog = j.variant.prog, c.ref_prog
    rels = {}
    for relname, rows in step['rels'].items():
        for t in P.parse_rel_rows(vprog, relname, rows):
            brel, bt = back(relname, t)
            rels.setdefault(brel, []).append(R.show_row(prog, brel, bt))
        if not rows:
            brel, _ = back(relname, None)
            rels.setdefault(brel, [])
    ns = dict(step)
    ns['rels'] = rels
    ns['sizes'] = ''
    return ns


def expected_inputs(job):
    """cumulative input rows for each observed step"""
    if 'expect' in job.meta:
        return job.meta['expect']
    res = []
    cur = list(job.input_rows)
    for st in job.steps:
        if st[0] == 'add':
            cur = cur + list(st[1])
        elif st[0] in ('run', 'timeout', 'measure'):
            res.append(list(cur))
    return res


def run_cases(ctx, cases, closure=True, check_inputs=True, extra_check=None, on_ok=None, compare_rels=None,
              nontrivial_rule=None, compile_fail_violation=None, **bargs):
    """Builds, runs and compares. extra_check(case, job, rep_index, step_index, step, db) -> list of diff dicts.
    on_ok(case, job, jr, refs) is called for jobs with no discrepancy. Returns stats."""
    tasks, index = [], []
    for c in cases:
        for j in c.jobs:
            for k, rows in enumerate(expected_inputs(j)):
                index.append((j.id, k))
                tasks.append((c.ref_prog, rows))
    refs = {}

    def overlap():
        # identical (program, input) pairs are evaluated once
        uniq = {}
        order = []
        for (key, (prog, rows)) in zip(index, tasks):
            h = (id(prog), repr(rows))
            if h not in uniq:
                uniq[h] = len(order)
                order.append((prog, rows))
        res = P.ref_eval_many(order)
        for (key, (prog, rows)) in zip(index, tasks):
            refs[key] = res[uniq[(id(prog), repr(rows))]]
        return len(order)

    stats = P.build_and_run(ctx, cases, overlap=overlap, **bargs)
    ctx.cov['programs'] = ctx.cov.get('programs', 0) + stats['programs']
    ctx.cov['build_s'] = round(ctx.cov.get('build_s', 0) + stats['build_s'], 1)
    ctx.cov['run_s'] = round(ctx.cov.get('run_s', 0) + stats['run_s'], 1)
    ctx.cov['compile_failures'] = ctx.cov.get('compile_failures', 0) + stats['compile_failures']
    ctx.cov['reference_evaluations'] = ctx.cov.get('reference_evaluations', 0) + (stats['overlap_result'] or 0)
    iters_hist = ctx.cov.setdefault('scc_iteration_histogram', {})
    for c in cases:
        for vname, err in c.build_failed.items():
            if compile_fail_violation and compile_fail_violation(c, vname):
                ctx.evaluations += 1
                ctx.violation('%s_%s_compile' % (c.name, vname),
                              {'case': c.name, 'variant': vname, 'program': c.variant(vname).prog.text().split('\n'), 'rustc': err[:1500],
                               'summary': 'variant %s does not compile although its equivalent form does: %s' % (vname, err[:200])},
                              dict(c.meta.get('facts', {}), kind='compile_error', variant=vname, message=err[:300]))
                continue
            # a well-formed generated program that does not compile: inconclusive here (C15 owns that direction)
            ctx.inconc('program %s/%s did not compile: %s' % (c.name, vname, err[:400]))
        prog = c.ref_prog
        for j in c.jobs:
            if j.variant.name in c.build_failed:
                continue
            vprog = j.variant.prog
            jr = j.result
            witness = {'case': c.name, 'job': j.id, 'variant': j.variant.name, 'kind': j.variant.kind,
                       'program': vprog.text().split('\n'), 'input': P.show_rows(vprog, j.input_rows),
                       'steps': [s if s[0] != 'add' else ('add', P.show_rows(vprog, s[1])) for s in j.steps],
                       'params': j.params,
                       'replay_hint': 'regenerated deterministically from VERIF_SEED/tier; `case` selects the program'}
            facts = {'macro': j.variant.kind, 'case_kind': c.meta.get('kind', ''), 'steps': [s[0] for s in j.steps]}
            facts.update(c.meta.get('facts', {}))
            if jr is None or (jr.crash and not jr.reps and not jr.panics):
                kind = jr.crash[0] if jr and jr.crash else 'no-result'
                detail = jr.crash[1] if jr and jr.crash else ''
                if kind == 'crash' or (kind == 'hang' and detail.startswith('deadlock')):
                    witness['summary'] = 'run() did not return: %s %s' % (kind, detail[:300])
                    facts.update({'kind': kind, 'detail': detail[:200]})
                    ctx.violation(j.id, witness, facts)
                else:
                    ctx.inconc('no result for %s (%s %s)' % (j.id, kind, detail[:200]))
                continue
            ctx.evaluations += max(1, len(jr.reps), jr.stats.get('reps', 0) if jr.stats else 0)
            if jr.panics:
                witness['summary'] = 'panicked: %s' % jr.panics[0]
                facts.update({'kind': 'panic', 'message': jr.panics[0]})
                ctx.violation(j.id, witness, facts)
                continue
            bad = False
            any_nontrivial = False
            for (rep, steps) in jr.reps:
                for k, step in enumerate(steps):
                    step = to_base_terms(c, j, step)
                    status, db, tsum, nontrivial = refs[(j.id, k)]
                    if status != 'ok':
                        ctx.inconc('reference failed on %s step %d: %s' % (j.id, k, db))
                        bad = True
                        break
                    any_nontrivial = any_nontrivial or nontrivial
                    diffs = []
                    if not j.meta.get('skip_compare'):
                        diffs = P.compare_step_to_db(prog, step, db, rels=compare_rels)
                        if not diffs and closure and not any(r.ds for r in vprog.rels):
                            try:
                                cv = closure_violations(prog, step_to_db(prog, step))
                            except R.RefError:
                                cv = []     # too expensive for the naive pass: the set comparison above already held
                            if cv:
                                diffs.append({'closure': [(ri, rel, R.show_row(prog, rel, t)) for ri, rel, t in cv]})
                    if extra_check:
                        diffs += extra_check(c, j, rep, k, step, db) or []
                    if diffs:
                        witness['diffs'] = diffs
                        witness['rep'] = rep
                        witness['step'] = step['kind']
                        witness['actual'] = {r: rows[:60] for r, rows in step['rels'].items()}
                        witness['summary'] = 'step %s (rep %d): %s' % (step['kind'], rep, json.dumps(diffs)[:300])
                        facts.update({'kind': 'diff', 'rels': sorted(set(d.get('rel', '?') for d in diffs)),
                                      'n_extra_total': sum(d.get('n_extra', 0) for d in diffs),
                                      'n_extra_in_monotone_rels': sum(d.get('n_extra', 0) for d in diffs if d.get('rel') not in nonmonotone_rels(prog)),
                                      'n_missing_total': sum(d.get('n_missing', 0) for d in diffs),
                                      'step_index': k, 'diff_kinds': sorted(set(k2 for d in diffs for k2 in d if k2 != 'rel'))})
                        ctx.violation(j.id, witness, facts)
                        bad = True
                        break
                if bad:
                    break
            if bad:
                continue
            step = jr.reps[0][1][-1] if jr.reps and jr.reps[0][1] else None
            if step:
                for part in step['scc'].split(','):
                    if ':' in part:
                        it = int(part.split(':')[1])
                        b = '1' if it <= 1 else '2-3' if it <= 3 else '4-9' if it <= 9 else '10+'
                        iters_hist[b] = iters_hist.get(b, 0) + 1
            nt = any_nontrivial if nontrivial_rule is None else nontrivial_rule(c, j, jr, refs)
            if nt:
                ctx.add_nontrivial(j.variant.kind, vprog.text(), repr(j.input_rows), repr(j.steps), repr(sorted(j.params.items())))
                tsum = refs[(j.id, 0)][2]
                ctx.cov_max('max_reference_passes', tsum['max_passes'])
                ctx.cov_max('max_lattice_improvements_of_one_key', tsum['max_lat_improvements'])
                if len(ctx.samples) < 2 and tsum['derived'] >= 3 and step:
                    ctx.sample({'program': vprog.text().split('\n'), 'macro': j.variant.kind, 'input': P.show_rows(vprog, j.input_rows),
                                'steps': witness['steps'], 'output': {k: v[:40] for k, v in step['rels'].items()},
                                'scc_iterations': step['scc'], 'reference_trace': tsum})
            if on_ok:
                on_ok(c, j, jr, refs)
    return stats
